"""Orchestration for the model-based verification of projecteru2/core.

Every check is:  TLC explores a bounded instance of a spec module (design check + input /
behaviour generation) -> a Go driver runs the REAL code on what TLC generated (plus seeded
random cases) and records an ndjson trace -> TLC validates the trace with the module's trace
spec, which evaluates the property predicates in every trace state and reports each failing
line -> this file classifies the reports against known-findings.json and writes evidence.
Verdicts (exit 1) come only from trace lines recorded from the real code.
"""
import json, os, re, shutil, subprocess, sys, tempfile, time, hashlib

ROOT = os.path.dirname(os.path.dirname(os.path.abspath(__file__)))
SPEC = os.path.join(ROOT, "spec")
HARNESS = os.path.join(ROOT, "harness")
CACHE = os.path.join(ROOT, ".cache")
EVID = os.path.join(ROOT, "evidence")
REPLAY = os.path.join(EVID, "replay")
REPO = os.environ.get("VERIF_REPO", "/repo")
JAR = "/opt/veriftools/tla/tla2tools.jar:/opt/veriftools/tla/CommunityModules-deps.jar"

GOENV = dict(GOFLAGS="-mod=mod", GOPROXY="off", GOSUMDB="off", GOTOOLCHAIN="local")


class Broken(Exception):
    """Machinery failure (exit 2): never a verdict about the code."""


def log(*a):
    print("[verif]", *a, file=sys.stderr, flush=True)


def seed():
    try:
        return int(os.environ.get("VERIF_SEED", "1"))
    except ValueError:
        return 1


def scratch(prefix="verif-"):
    base = os.environ.get("VERIF_SCRATCH", tempfile.gettempdir())
    return tempfile.mkdtemp(prefix=prefix, dir=base)


# --------------------------------------------------------------------------- Go side
def sync_gomod():
    """harness/go.mod = /repo/go.mod's requirements + replace core => /repo (offline: nothing to resolve)."""
    src = open(os.path.join(REPO, "go.mod")).read()
    src = src.replace("module github.com/projecteru2/core", "module verif/harness", 1)
    src += "\nrequire github.com/projecteru2/core v0.0.0\n\nreplace github.com/projecteru2/core => %s\n" % REPO
    p = os.path.join(HARNESS, "go.mod")
    if not os.path.exists(p) or open(p).read() != src:
        open(p, "w").write(src)
    shutil.copy(os.path.join(REPO, "go.sum"), os.path.join(HARNESS, "go.sum"))


def build_driver(pkg):
    """(Re)build the driver test binary of harness package `pkg` from /repo's working tree."""
    os.makedirs(os.path.join(CACHE, "bin"), exist_ok=True)
    out = os.path.join(CACHE, "bin", pkg.replace("/", "_") + ".test")
    env = dict(os.environ, **GOENV)
    sync_gomod()
    t0 = time.time()
    p = subprocess.run(["go", "test", "-c", "-tags", "verif", "-vet=off", "-o", out, "./" + pkg],
                       cwd=HARNESS, env=env, stdout=subprocess.PIPE, stderr=subprocess.STDOUT, text=True)
    if p.returncode != 0:
        raise Broken("driver build failed for %s:\n%s" % (pkg, p.stdout[-4000:]))
    log("built %s in %.1fs" % (pkg, time.time() - t0))
    return out


ENV_DROPPED = 0


def run_driver(binary, test, env=None, timeout=3600, cwd=None, ok_rc=(0,)):
    """Run one driver test; returns stdout. Driver failure is machinery failure."""
    e = dict(os.environ, **GOENV)
    e.update({k: str(v) for k, v in (env or {}).items()})
    e.setdefault("VERIF_SEED", str(seed()))
    t0 = time.time()
    # everything the driver (and its worker processes) puts into its temporary directory - embedded etcd data, recovery
    # logs - is removed with it, however the driver ends
    tmpd = scratch("verif-drv-")
    e["TMPDIR"] = tmpd
    try:
        p = subprocess.run([binary, "-test.run", "^" + test + "$", "-test.v", "-test.timeout", "%ds" % timeout],
                           cwd=cwd or os.path.dirname(binary), env=e, stdout=subprocess.PIPE,
                           stderr=subprocess.STDOUT, text=True, timeout=timeout + 60, errors="replace")
    except subprocess.TimeoutExpired:
        raise Broken("driver %s timed out" % test)
    finally:
        shutil.rmtree(tmpd, ignore_errors=True)
    out = p.stdout
    if p.returncode not in ok_rc or ("--- PASS: " + test) not in out:
        tail = "\n".join([ln for ln in out.splitlines() if not ln.startswith("    ") or "verif" in ln][-60:])
        raise Broken("driver %s failed rc=%d:\n%s" % (test, p.returncode, tail))
    log("driver %s ok in %.1fs" % (test, time.time() - t0))
    # inputs the driver dropped because the embedded etcd itself failed while they ran (harness/vt: EnvFailedSince)
    side = e.get("VERIF_TRACE", "") + ".envdropped"
    if e.get("VERIF_TRACE") and os.path.exists(side):
        global ENV_DROPPED
        try:
            ENV_DROPPED += int(open(side).read().strip() or 0)
        finally:
            os.remove(side)
    return out


CRASHES = []


def _repo_panic(msg):
    """A Go panic whose goroutine was running code of the repository under test (not the harness)? -> its top repo frame."""
    if "panic:" not in msg:
        return None
    m = re.search(r"panic: (.*)", msg)
    what = m.group(1).strip() if m else "panic"
    tail = msg[msg.index("panic:"):]
    first = tail.split("\n\ngoroutine", 1)[0] + "\n" + (tail.split("\n\ngoroutine", 2)[1] if tail.count("\n\ngoroutine") else "")
    frames = re.findall(r"^((?:github\.com/projecteru2/core/|verif/harness/).+?)\([^()]*\)$", first, re.M)
    frames = [f for f in frames if not f.startswith("github.com/projecteru2/core/utils.SentryGo")]
    if frames and frames[0].startswith("github.com/projecteru2/core/"):
        return what, frames[0]
    return None


def run_driver_sharded(binary, test, inputs, trace, shards=12, env=None, timeout=3600, crash_property=None):
    """Run a single-worker driver as `shards` parallel processes over a round-robin split of the
    input file (each process has its own embedded etcd / miniredis); traces are concatenated.
    crash_property: the property that says the operation always finishes. When the driver PROCESS dies of a panic raised
    in a goroutine of the code under test (nothing the driver could recover), the input that was running is recorded in
    CRASHES (-> a violation of that property, with the stack) and the shard goes on with the inputs after it."""
    from concurrent.futures import ThreadPoolExecutor
    lines = read_lines(inputs)
    shards = max(1, min(shards, len(lines)))
    parts = []
    for i in range(shards):
        pi, ti = "%s.s%d" % (inputs, i), "%s.s%d" % (trace, i)
        with open(pi, "w") as f:
            f.write("\n".join(lines[i::shards]) + "\n")
        parts.append((pi, ti))

    def one(pt):
        e = dict(env or {})
        e.update({"VERIF_INPUTS": pt[0], "VERIF_TRACE": pt[1]})
        if not crash_property:
            return run_driver(binary, test, env=e, timeout=timeout)
        e["VERIF_CRASHFILE"] = pt[1] + ".current"
        outs, kept = [], []
        for attempt in range(4):
            try:
                outs.append(run_driver(binary, test, env=e, timeout=timeout))
                break
            except Broken as b:
                hit = _repo_panic(str(b))
                if not hit or not os.path.exists(e["VERIF_CRASHFILE"]):
                    raise
                cur = open(e["VERIF_CRASHFILE"]).read().strip()
                CRASHES.append({"property": crash_property, "sig": "process-crashed/" + hit[1].split("/")[-1], "line": 0, "panic": hit[0],
                                "input": cur, "stack": str(b)[str(b).index("panic:"):][:3000]})
                log("driver %s: process crashed in %s (%s); continuing after the crashing input" % (test, hit[1], hit[0]))
                if os.path.exists(pt[1]):
                    kept.append(open(pt[1]).read())
                if attempt == 3:     # the violation is established several times over: the rest of this shard is not run
                    open(pt[1], "w").close()
                    break
                rest = read_lines(pt[0])
                idx = rest.index(cur) if cur in rest else len(rest) - 1
                with open(pt[0], "w") as f:
                    f.write("\n".join(rest[idx + 1:]) + "\n")
        if kept:
            last = open(pt[1]).read() if os.path.exists(pt[1]) else ""
            with open(pt[1], "w") as f:
                f.write("".join(x if x.endswith("\n") or not x else x.rsplit("\n", 1)[0] + "\n" for x in kept) + last)
        if os.path.exists(e["VERIF_CRASHFILE"]):
            os.remove(e["VERIF_CRASHFILE"])
        return "\n".join(outs)
    try:
        with ThreadPoolExecutor(max_workers=shards) as ex:
            outs = list(ex.map(one, parts))
        with open(trace, "w") as f:
            for _, ti in parts:
                f.write(open(ti).read())
    finally:
        for pi, ti in parts:
            for x in (pi, ti):
                if os.path.exists(x):
                    os.remove(x)
    return "\n".join(outs)


# --------------------------------------------------------------------------- TLC
class TLCResult:
    def __init__(self):
        self.stdout = ""
        self.rc = None
        self.generated = 0
        self.distinct = 0
        self.depth = 0
        self.wall = 0.0
        self.prints = []       # parsed <<"TAG", "json">> prints
        self.error = None      # None | "invariant:<name>" | "property" | "deadlock" | "other:<text>"
        self.coverage = {}
        self.behaviours = []

    def tagged(self, tag):
        return [p[1] for p in self.prints if p[0] == tag]


_PRINT_RE = re.compile(r'^<<"([A-Z]+)", (.*)>>$')


def _unquote_tla(s):
    # TLC prints strings with \" and \\ escapes
    if len(s) >= 2 and s[0] == '"' and s[-1] == '"':
        body = s[1:-1]
        out, i = [], 0
        while i < len(body):
            c = body[i]
            if c == "\\" and i + 1 < len(body):
                out.append(body[i + 1]); i += 2
            else:
                out.append(c); i += 1
        return "".join(out)
    return s


def tlc(module, cfg, env=None, workers=16, timeout=1800, simulate=None, depth=None, coverage=False,
        heap="8g", deque=False, extra=None, keep_stdout=True):
    """Run TLC on spec/<module>.tla with spec/<cfg> in a scratch directory."""
    d = scratch("tlc-")
    res = TLCResult()
    try:
        for f in os.listdir(SPEC):
            if f.endswith(".tla") or f == cfg:
                shutil.copy(os.path.join(SPEC, f), d)
        cmd = ["java", "-XX:+UseParallelGC", "-Xmx" + heap, "-Xss512m"]
        if deque:
            cmd.append("-Dtlc2.tool.queue.IStateQueue=StateDeque")
        cmd += ["-cp", JAR, "tlc2.TLC", "-workers", str(workers), "-metadir", os.path.join(d, "meta"),
                "-config", cfg]
        if simulate:
            cmd += ["-simulate", simulate]
        if depth:
            cmd += ["-depth", str(depth)]
        if coverage:
            cmd += ["-coverage", "1"]
        cmd += ["-seed", str(seed())] if simulate else []
        cmd += (extra or []) + [module + ".tla"]
        e = dict(os.environ)
        e.update({k: str(v) for k, v in (env or {}).items()})
        t0 = time.time()
        try:
            p = subprocess.run(cmd, cwd=d, env=e, stdout=subprocess.PIPE, stderr=subprocess.STDOUT,
                               text=True, timeout=timeout, errors="replace")
        except subprocess.TimeoutExpired:
            subprocess.run(["pkill", "-f", "tlc2.TL[C].*" + os.path.basename(d)])
            raise Broken("TLC timed out on %s/%s" % (module, cfg))
        res.wall = time.time() - t0
        res.rc = p.returncode
        out = p.stdout
        res.stdout = out if keep_stdout else out[-20000:]
        for ln in out.splitlines():
            m = _PRINT_RE.match(ln)
            if m:
                res.prints.append((m.group(1), _unquote_tla(m.group(2))))
        m = re.findall(r"(\d[\d,]*) states generated, (\d[\d,]*) distinct states found", out)
        if m:
            res.generated = int(m[-1][0].replace(",", ""))
            res.distinct = int(m[-1][1].replace(",", ""))
        m = re.search(r"depth of the complete state graph search is (\d+)", out)
        if m:
            res.depth = int(m.group(1))
        m = re.search(r"Invariant (\S+) is violated", out)
        if m:
            res.error = "invariant:" + m.group(1)
        elif "Temporal properties were violated" in out or re.search(r"Temporal property \S+ was violated", out):
            res.error = "property"
        elif re.search(r"Action property \S+ is violated", out):
            res.error = "actionproperty:" + re.search(r"Action property (\S+) is violated", out).group(1)
        elif "Deadlock reached" in out:
            res.error = "deadlock"
        elif "Error:" in out or (p.returncode not in (0,) and "No error has been found" not in out
                                 and "Model checking completed" not in out and not simulate):
            mm = re.search(r"Error: (.*)", out)
            res.error = "other:" + (mm.group(1) if mm else "rc=%d" % p.returncode)
        if coverage:
            for mm in re.finditer(r"<(\w+) line \d+, col \d+ to line \d+, col \d+ of module (\w+)>: (\d+):(\d+)", out):
                res.coverage[mm.group(1)] = res.coverage.get(mm.group(1), 0) + int(mm.group(4))
        return res
    finally:
        shutil.rmtree(d, ignore_errors=True)


def apalache_inductive(module, cinit, indinit, inv, timeout=600):
    """Apalache: Init => Inv (length 0) and Inv /\\ Next => Inv' (length 1). Failure or timeout = Broken (never a verdict)."""
    d = scratch("apa-")
    try:
        for f in os.listdir(SPEC):
            if f.endswith(".tla"):
                shutil.copy(os.path.join(SPEC, f), d)
        for init, length in (("Init", 0), (indinit, 1)):
            cmd = ["apalache-mc", "check", "--cinit=" + cinit, "--init=" + init, "--inv=" + inv, "--length=%d" % length,
                   "--out-dir=" + os.path.join(d, "out"), module + ".tla"]
            try:
                p = subprocess.run(cmd, cwd=d, stdout=subprocess.PIPE, stderr=subprocess.STDOUT, text=True, timeout=timeout)
            except subprocess.TimeoutExpired:
                raise Broken("apalache timed out on %s" % module)
            if "The outcome is: NoError" not in p.stdout:
                raise Broken("apalache %s init=%s length=%d: %s" % (module, init, length, p.stdout[-1500:]))
        log("apalache: %s is inductive for %s" % (inv, module))
    finally:
        shutil.rmtree(d, ignore_errors=True)


def model_check(module, cfg, env=None, **kw):
    """Design-level run. A model-only counterexample is model drift (exit 2), not a violation."""
    r = tlc(module, cfg, env=env, **kw)
    if r.error:
        raise Broken("model %s/%s: %s\n%s" % (module, cfg, r.error, r.stdout[-3000:]))
    log("model %s/%s: %d generated, %d distinct, %.1fs" % (module, cfg, r.generated, r.distinct, r.wall))
    return r


def emit_inputs(r, path, tag="INPUT"):
    """Write the de-duplicated JSON payloads TLC printed under `tag` as ndjson."""
    seen, n = set(), 0
    with open(path, "w") as f:
        for s in r.tagged(tag):
            if s in seen:
                continue
            seen.add(s)
            f.write(s + "\n")
            n += 1
    return n


def validate_trace(module, cfg, trace, env=None, timeout=3600, deque=False, heap="8g", chunk=None):
    """Trace validation. Returns (violations:list[dict], TLCResult). Rejection => Broken.
    chunk=N validates a stateless trace N lines at a time (bounded memory); line numbers are global."""
    if chunk:
        lines = read_lines(trace)
        if len(lines) > chunk:
            allv, last = [], None
            for off in range(0, len(lines), chunk):
                part = trace + ".part"
                with open(part, "w") as f:
                    f.write("\n".join(lines[off:off + chunk]) + "\n")
                try:
                    v, last = validate_trace(module, cfg, part, env=env, timeout=timeout, deque=deque, heap=heap)
                finally:
                    os.remove(part)
                for x in v:
                    x["line"] = x.get("line", 0) + off
                allv += v
            return allv, last
    e = {"VERIF_TRACE": trace}
    e.update(env or {})
    r = tlc(module, cfg, env=e, workers=1, timeout=timeout, deque=deque, heap=heap)
    viols = []
    seen = set()
    for s in r.tagged("VIOL"):
        if s in seen:
            continue
        seen.add(s)
        viols.append(json.loads(s))
    acc = r.tagged("ACCEPTED")
    if r.error or not acc:
        rej = r.tagged("REJECTED")
        raise Broken("trace %s not accepted by %s (%s) %s\n%s" % (trace, module, r.error, rej, r.stdout[-3000:]))
    log("trace %s: %s lines accepted by %s, %d violation reports, %.1fs" % (os.path.basename(trace), acc[-1], module, len(viols), r.wall))
    return viols, r


def read_lines(path):
    with open(path) as f:
        return [ln for ln in f.read().splitlines() if ln]


# --------------------------------------------------------------------------- findings / evidence
def load_known():
    p = os.path.join(ROOT, "known-findings.json")
    if not os.path.exists(p):
        return []
    return json.load(open(p)).get("findings", [])


def classify(pid, viols, trace_lines, sig_of=None):
    """Split violation reports of property pid into (known, new). A finding entry matches on
    property + sig (exact string produced by the trace spec from the failing event)."""
    known = [k for k in load_known() if k.get("property") == pid and k.get("status", "open") == "open"]
    mine = [v for v in viols if v["property"] == pid]
    kn, new = {}, []
    for v in mine:
        sig = v.get("sig", "")
        hit = None
        for k in known:
            if k["sig"] == sig:
                hit = k
                break
        if hit:
            kn.setdefault(hit["sig"], []).append(v)
        else:
            new.append(v)
    return kn, new


def write_replay(pid, viol, trace_lines, context=None, window=None):
    os.makedirs(REPLAY, exist_ok=True)
    n = 0
    while os.path.exists(os.path.join(REPLAY, "%s-%d.json" % (pid, n))):
        n += 1
    path = os.path.join(REPLAY, "%s-%d.json" % (pid, n))
    line = viol.get("line", 0)
    lo, hi = (line - 1, line) if window is None else window
    evs = []
    for ln in trace_lines[max(lo, 0):hi]:
        try:
            evs.append(json.loads(ln))
        except Exception:
            evs.append(ln)
    json.dump({"property": pid, "violation": viol, "events": evs, "context": context or {},
               "seed": seed()}, open(path, "w"), indent=1)
    return path


def clear_replays(pid):
    if os.path.isdir(REPLAY):
        for f in os.listdir(REPLAY):
            if f.startswith(pid + "-"):
                os.remove(os.path.join(REPLAY, f))


def write_evidence(pid, tier, t0, coverage, assumptions, violations, extra=None):
    os.makedirs(EVID, exist_ok=True)
    ev = {"property_id": pid, "tier": tier, "seed": seed(), "level": "model_checking",
          "coverage": coverage, "assumptions": assumptions, "wall_s": round(time.time() - t0, 2),
          "violations": violations}
    if extra:
        ev.update(extra)
    tmp = os.path.join(EVID, pid + ".json.tmp")
    json.dump(ev, open(tmp, "w"), indent=1)
    os.replace(tmp, os.path.join(EVID, pid + ".json"))


def finish(pid, tier, t0, viols, trace_lines, coverage, assumptions, context=None, window_of=None, extra=None):
    """Common tail: classify, print KNOWN-FINDING / VIOLATION lines, write evidence, return exit code."""
    clear_replays(pid)
    kn, new = classify(pid, viols, trace_lines)
    for sig, vs in kn.items():
        k = [x for x in load_known() if x["property"] == pid and x["sig"] == sig][0]
        print("KNOWN-FINDING: property=%s %s [%d trace lines]" % (pid, k["what"], len(vs)), flush=True)
    rc = 0
    shown = set()
    for v in new:
        key = v.get("sig", "")
        if key in shown and len(shown) >= 1:
            continue
        shown.add(key)
        w = window_of(v) if window_of else None
        path = write_replay(pid, v, trace_lines, context, w)
        print("VIOLATION property=%s replay=%s" % (pid, path), flush=True)
        rc = 1
        if len(shown) >= 5:
            break
    coverage = dict(coverage)
    coverage["known_findings_matched"] = sorted(kn.keys())
    coverage["violation_reports_new"] = len(new)
    write_evidence(pid, tier, t0, coverage, assumptions, len(new), extra)
    return rc


def samples_from(trace_lines, k=3):
    out = []
    if not trace_lines:
        return out
    step = max(1, len(trace_lines) // k)
    for i in range(0, len(trace_lines), step):
        try:
            out.append(json.loads(trace_lines[i]))
        except Exception:
            pass
        if len(out) >= k:
            break
    return out
