"""Static text for MANIFEST.json."""
import json

HOOKS = {
    "guard": "verif",
    "enable": "go test -tags verif (harness module /verif/harness, replace github.com/projecteru2/core => /repo)",
    "baseline_off_cmd": "for m in $(cat /w/out/gomods.txt); do MF=$(cd /repo/$m && . /w/out/goenv.sh && gomodflag); (cd /repo/$m && go test $MF -json -vet=off -count=1 -timeout 25m ./...); done",
    "source_commits": ["9c17ef8"],
    "add_only": True,
}

DEFAULT_TEXT = ("An explicit TLA+ module states the property as a predicate over abstract states; TLC explores a bounded "
                "instance of the module's step machine exhaustively (design check) and generates the inputs/behaviours; the "
                "real code is run on them and every recorded event/state is judged by TLC against the same predicate (trace validation).")
DEFAULT_TECHNIQUE = "TLA+ spec + TLC model checking; TLC-generated inputs replayed on the real code; recorded traces validated by TLC"

NOTES = ("bin/check <id> <tier>; properties of one family share one pipeline run per identical tree (cached by content hash of /repo "
         "working tree + /verif machinery + seed + tier). exit 2 = machinery failure, never a verdict. See DESIGN.md.")

NOT_APPLICABLE = {
    "C34": "a data race is a property of individual memory accesses under the Go memory model; no variable or action of a TLA+ specification denotes a memory access, so TLC cannot state or decide it (the sound oracle is the Go race detector, a different technique) — DESIGN.md §2 C34",
}

CHECKS = {}


def engines(families):
    fams = {}
    for pid, P in families.PROPS.items():
        fams.setdefault(P["family"], []).append(pid)
    return [{"name": f, "path": "lib/families.py", "serves_properties": sorted(p), "kind_free_text": "TLC model run + Go driver on real code + TLC trace validation"} for f, p in sorted(fams.items())]
