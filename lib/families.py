"""Property families: each family is one pipeline (model run -> real-code driver -> trace
validation); each property of the family takes its own verdict from its own predicate."""
import hashlib, json, os, subprocess, time
import verif
from verif import Broken, log

FAMILIES = {}
PROPS = {}
ALSO = {}      # property -> additional families whose traces also judge it


def family(name):
    def deco(fn):
        FAMILIES[name] = fn
        return fn
    return deco


def prop(pid, fam, rule, assumptions, nontrivial=None):
    PROPS[pid] = dict(family=fam, rule=rule, assumptions=assumptions, nontrivial=nontrivial)


# --------------------------------------------------------------------------- cache
def _tree_key():
    h = hashlib.sha256()
    for cmd in (["git", "-C", verif.REPO, "rev-parse", "HEAD"],
                ["git", "-C", verif.REPO, "diff", "HEAD"],
                ["git", "-C", verif.REPO, "ls-files", "--others", "--exclude-standard"]):
        p = subprocess.run(cmd, stdout=subprocess.PIPE, stderr=subprocess.DEVNULL)
        h.update(p.stdout)
        if cmd[-1] == "--exclude-standard":
            for f in p.stdout.decode().split():
                try:
                    h.update(open(os.path.join(verif.REPO, f), "rb").read())
                except Exception:
                    pass
    for sub in ("spec", "harness", "lib", "bin"):
        for dp, dn, fn in sorted(os.walk(os.path.join(verif.ROOT, sub))):
            dn.sort()
            for f in sorted(fn):
                if f.endswith((".pyc", ".sum")):
                    continue
                h.update(f.encode())
                try:
                    h.update(open(os.path.join(dp, f), "rb").read())
                except Exception:
                    pass
    kf = os.path.join(verif.ROOT, "known-findings.json")
    if os.path.exists(kf):
        h.update(open(kf, "rb").read())
    return h.hexdigest()[:24]


def run_family(fam, tier):
    """Run (or reuse, for the identical tree+machinery+seed+tier within 45 min) a family pipeline."""
    d = os.path.join(verif.CACHE, "fam")
    os.makedirs(d, exist_ok=True)
    key = "%s-%s-%d-%s" % (fam, tier, verif.seed(), _tree_key())
    meta = os.path.join(d, key + ".json")
    if os.environ.get("VERIF_NOCACHE") != "1" and os.path.exists(meta) and time.time() - os.path.getmtime(meta) < 2700:
        res = json.load(open(meta))
        if os.path.exists(res["trace"]):
            log("family %s: reusing run of identical tree (%s)" % (fam, key))
            return res
    for f in os.listdir(d):                      # drop older runs of this family/tier
        if f.startswith("%s-%s-" % (fam, tier)):
            os.remove(os.path.join(d, f))
    t0 = time.time()
    verif.ENV_DROPPED = 0
    res = FAMILIES[fam](tier, os.path.join(d, key))
    res["wall"] = time.time() - t0
    if verif.ENV_DROPPED:
        # inputs during which the embedded etcd itself failed (request timed out under load) were not judged
        total = sum(res.get("traces", {}).values()) or 1
        if verif.ENV_DROPPED > max(5, total // 10):
            raise Broken("family %s: the embedded etcd failed during %d inputs (overloaded machine?): too many could not be judged" % (fam, verif.ENV_DROPPED))
        res["notes"] = res.get("notes", "") + "; %d inputs dropped because the embedded etcd itself failed while they ran" % verif.ENV_DROPPED
    json.dump(res, open(meta, "w"))
    return res


def check(pid, tier):
    t0 = time.time()
    P = PROPS[pid]
    res = run_family(P["family"], tier)
    lines = verif.read_lines(res["trace"]) if res.get("trace") else []
    viols = [v for v in res["viols"] if v["property"] == pid]
    extra_notes = []
    for fam2 in ALSO.get(pid, []):       # the same property observed through another pipeline
        res2 = run_family(fam2, tier)
        lines2 = verif.read_lines(res2["trace"])
        off = len(lines)
        lines = lines + lines2
        for v in res2["viols"]:
            if v["property"] == pid:
                v = dict(v); v["line"] = v.get("line", 0) + off
                viols.append(v)
        extra_notes.append("%s: %s" % (fam2, res2.get("notes", "")))
        res = dict(res); res["states"] = res.get("states", 0) + res2.get("states", 0)
        res["transitions"] = res.get("transitions", 0) + res2.get("transitions", 0)
        res["configs"] = res.get("configs", []) + res2.get("configs", [])
    cov = {
        "states": max(1, res.get("states", 0)), "transitions": max(1, res.get("transitions", 0)),
        "traces_validated_against_impl": res.get("traces", {}).get(pid, res.get("traces", {}).get("*", 0)),
        "samples": res.get("samples", {}).get(pid, res.get("samples", {}).get("*", []))[:4],
        "rule": P["rule"], "exhaustive_model": res.get("exhaustive", True),
        "model_configs": res.get("configs", []), "trace_events": len(lines),
        "family_wall_s": round(res.get("wall", 0), 1),
    }
    for k in ("actions_covered", "notes"):
        if k in res:
            cov[k] = res[k]
    if extra_notes:
        cov["also_observed_through"] = extra_notes
    if pid in res.get("nontrivial", {}):
        cov["distinct_nontrivial"] = res["nontrivial"][pid]
        cov["evaluations"] = cov["traces_validated_against_impl"]
    window = None
    if res.get("window"):
        W = res["window"]
        window = lambda v: (max(0, v.get("line", 1) - 1 - W), v.get("line", 1))
    return verif.finish(pid, tier, t0, viols, lines, cov, P["assumptions"],
                        context={"family": P["family"], "tier": tier, "configs": res.get("configs", [])},
                        window_of=window)


# =========================================================================== Strategy: C01-C03
@family("strategy")
def fam_strategy(tier, base):
    cfg = "MC_Strategy_quick.cfg" if tier == "quick" else "MC_Strategy_thorough.cfg"
    r = verif.model_check("MC_Strategy", cfg, env={"VERIF_EMIT": "1"}, timeout=3000)
    inputs, trace = base + ".in.ndjson", base + ".trace.ndjson"
    n = verif.emit_inputs(r, inputs)
    b = verif.build_driver("pure")
    nrand = 3000 if tier == "quick" else 200000
    verif.run_driver(b, "TestStrategyReplay", env={"VERIF_INPUTS": inputs, "VERIF_TRACE": trace, "VERIF_RANDOM": nrand})
    os.remove(inputs)
    viols, tr = verif.validate_trace("Trace_Strategy", "Trace_Strategy.cfg", trace)
    lines = verif.read_lines(trace)
    planned = sum(1 for ln in lines if '"class":"plan"' in ln or '"class":"filled"' in ln)
    refused = sum(1 for ln in lines if '"class":"insufficient"' in ln)
    return dict(trace=trace, viols=viols, states=r.distinct, transitions=r.generated, configs=[cfg, "Trace_Strategy.cfg"],
                traces={"*": len(lines)}, samples={"*": verif.samples_from(lines, 4)},
                nontrivial={"C01": planned, "C02": min(planned, refused) * 2, "C03": planned},
                notes="%d TLC-enumerated inputs + %d seeded random inputs run through the real strategy.Deploy; %d produced a plan, %d were refused" % (n, nrand, planned, refused))


_A_STRAT = ["usage/rate are dyadic (k/4) so float64 arithmetic is exact and TLC's integer arithmetic x4 is the same comparison",
            "unlimited capacity = math.MaxInt in the code, INF=10^6 in the model; candidate names distinct",
            "total passed to Deploy is the saturating sum of the offered capacities (what calcium passes)"]
prop("C01", "strategy", "every (strategy, infos<=N nodes, need, limit) within MC_Strategy constants, enumerated by TLC, plus seeded random inputs up to 12 nodes; non-trivial = a plan was produced", _A_STRAT)
prop("C02", "strategy", "same inputs; non-trivial = both feasible and infeasible inputs occur (2 x min of the two counts)", _A_STRAT)
prop("C03", "strategy", "same inputs; non-trivial = a plan was produced (balancing predicate evaluated on it)", _A_STRAT)


# =========================================================================== CpuMem allocation: C04-C07
@family("cpumem_alloc")
def fam_cpumem_alloc(tier, base):
    cfgs = ["MC_CpuMem_quick.cfg"] if tier == "quick" else ["MC_CpuMem_t3.cfg", "MC_CpuMem_t4.cfg"]
    inputs, trace = base + ".in.ndjson", base + ".trace.ndjson"
    states = gen = n = 0
    seen = set()
    with open(inputs, "w") as f:
        for cfg in cfgs:
            r = verif.model_check("MC_CpuMem", cfg, timeout=3000)
            states += r.distinct
            gen += r.generated
            for s in r.tagged("INPUT"):
                if s not in seen:
                    seen.add(s)
                    f.write(s + "\n")
                    n += 1
    del seen
    b = verif.build_driver("cpumem")
    nrand = 3000 if tier == "quick" else 100000
    out = verif.run_driver(b, "TestCpuMemAlloc", env={"VERIF_INPUTS": inputs, "VERIF_TRACE": trace, "VERIF_RANDOM": nrand, "VERIF_PAR": 12}, timeout=7000)
    os.remove(inputs)
    viols, tr = verif.validate_trace("Trace_CpuMemAlloc", "Trace_CpuMemAlloc.cfg", trace, chunk=100000)
    lines = verif.read_lines(trace)
    accepted = sum(1 for ln in lines if '"class":"ok","k"' in ln)
    bound = sum(1 for ln in lines if '"bind":true' in ln)
    crash = sum(1 for ln in lines if '"ev":"Crash"' in ln)
    return dict(trace=trace, viols=viols, states=states, transitions=gen, configs=cfgs + ["Trace_CpuMemAlloc.cfg"],
                traces={"*": len(lines)}, samples={"*": verif.samples_from(lines, 3)},
                nontrivial={"C04": accepted, "C05": bound, "C06": bound, "C07": len(lines)},
                notes="%d TLC-enumerated (node,request) inputs + %d seeded random wide inputs (B in {100,10,4,7}, <=8 cores, arbitrary shares, sub-piece requests) run through the real plugin in supervised worker subprocesses; %d cases had an accepted allocation committed; %d crash/timeout events" % (n, nrand, accepted, crash))


_A_CM = ["real cpumem plugin on an embedded single-member etcd; each case in a supervised worker (10 s deadline vs ~1 ms normal, 3 GiB heap watchdog)",
         "requests have limit = request; node states are written with SetNodeResourceInfo (must pass the plugin's Validate)",
         "memory in abstract units (the plugin only compares and divides int64 values)"]
prop("C04", "cpumem_alloc", "every TLC-enumerated (node state x request) + random wide states; allocation tried at k in {1, cap-1, cap, cap+1}; largest accepted allocation committed and read back; non-trivial = an allocation was accepted", _A_CM)
prop("C05", "cpumem_alloc", "same cases; non-trivial = bound request", _A_CM)
prop("C06", "cpumem_alloc", "same cases incl. sub-piece requests, max-share 1..3 with more fragment cores than max-share, share != base; non-trivial = bound request (CPU planning executed)", _A_CM)
prop("C07", "cpumem_alloc", "same cases; capacity vs acceptance at cap-1, cap, cap+1; 3-node joint capacity queries for offered set and saturating total", _A_CM)


# =========================================================================== CpuMem histories: C08 C15 C32 C33
@family("cpumem_hist")
def fam_cpumem_hist(tier, base):
    inputs, trace = base + ".in.ndjson", base + ".trace.ndjson"
    q = tier == "quick"
    runs = [("MC_CpuMemHist", "MC_CpuMemHist_quick.cfg" if q else "MC_CpuMemHist_thorough.cfg", None),
            ("MC_CpuMemHist", "MC_CpuMemHist_cent.cfg", None),      # share base 100, requests in hundredths of a core
            ("MC_CpuMemFix", "MC_CpuMemFix_quick.cfg" if q else "MC_CpuMemFix_thorough.cfg", None),
            ("MC_CpuMemHist", "MC_CpuMemHist_sim.cfg", "num=%d" % (100 if q else 3000))]
    states = gen = n = 0
    seen = set()
    cfgs = []
    with open(inputs, "w") as f:
        for mod, cfg, sim in runs:
            if sim:
                r = verif.tlc(mod, cfg, simulate=sim, depth=11, workers=1, timeout=3000)
                if r.error:
                    raise Broken("simulation %s: %s" % (cfg, r.error))
                m = __import__("re").search(r"The number of states generated: (\d+)", r.stdout)
                gen += int(m.group(1)) if m else 0
            else:
                r = verif.model_check(mod, cfg, timeout=3000)
                states += r.distinct
                gen += r.generated
            cfgs.append(cfg)
            for s in r.tagged("INPUT"):
                if s not in seen:
                    seen.add(s)
                    f.write(s + "\n")
                    n += 1
    del seen
    b = verif.build_driver("cpumem")
    nrand = 500 if q else 30000
    verif.run_driver(b, "TestCpuMemHistory", env={"VERIF_INPUTS": inputs, "VERIF_TRACE": trace, "VERIF_RANDOM": nrand, "VERIF_PAR": 12}, timeout=7000)
    os.remove(inputs)
    viols, tr = verif.validate_trace("Trace_CpuMemHist", "Trace_CpuMemHist.cfg", trace, heap="16g")
    lines = verif.read_lines(trace)
    cnt = lambda s: sum(1 for ln in lines if s in ln)
    nt = {"C08": cnt('"op":"rbAlloc"') + cnt('"op":"rbRealloc"') + cnt('"op":"realloc"'), "C15": cnt('"ev":"FixCase"'),
          "C32": cnt('"class":"ok","diffs":0,"ev":"HistOp","k":0,"kind":"","live":[{') if False else cnt('"op":"remap"'),
          "C33": cnt('"kind":"keep"') + cnt('"kind":"mem+"') + cnt('"kind":"mem-"')}
    # samples: first history and first fix case
    samples = {"*": verif.samples_from(lines[:40], 3), "C15": [json.loads(l) for l in lines if '"ev":"FixCase"' in l][:2]}
    return dict(trace=trace, viols=viols, states=states, transitions=gen, configs=cfgs + ["Trace_CpuMemHist.cfg"], window=12,
                traces={"*": cnt('"ev":"HistStart"'), "C15": cnt('"ev":"FixCase"')}, samples=samples, nontrivial=nt, exhaustive=False,
                notes="%d TLC-generated inputs (exhaustive short histories after a first allocation, simulated histories of 10 ops, drift cases) + %d seeded random histories (4-15 ops) replayed through cobalt.Manager + cpumem; %d operations judged" % (n, nrand, cnt('"ev":"HistOp"')))


_A_CH = ["real cobalt.Manager + cpumem plugin on embedded etcd, in supervised worker subprocesses",
         "history nodes use share base 2 (half-core pieces) so that requests of 0.5/1.0/1.5/2.0 cores are exact; nodes: 4 plain cores, 2x2 and 3x3 NUMA, 3 cores with two shares each (max-share 2), 2 plain cores",
         "release is SetNodeResourceUsage(Decr) with the workload's recorded resources (what calcium's remove/dissociate do)"]
prop("C08", "cpumem_hist", "TLC-generated + random histories of alloc/rollback/realloc(7 delta kinds)/rollback/release/remap; after EVERY operation the plugin's recorded usage is read back and compared with the sum over live workloads; non-trivial = realloc or rollback operations", _A_CH)
prop("C15", "cpumem_hist", "TLC-enumerated drift patterns (per-core usage, memory, NUMA memory) x recorded workload sets placed by the real allocator; repair then re-check; non-trivial = a drift case", _A_CH)
prop("C32", "cpumem_hist", "remap after every prefix of the histories; result compared with the free-shared-core rule; non-trivial = a remap call", _A_CH)
prop("C33", "cpumem_hist", "every keep-bind realloc with zero CPU delta (kinds keep, mem+, mem-) in the histories; non-trivial = such a realloc", _A_CH)


# =========================================================================== Merge: C09 (+ manager total for C07)
@family("merge")
def fam_merge(tier, base):
    cfgs = ["MC_Merge_p1.cfg", "MC_Merge_p2.cfg", "MC_Merge_p3n1.cfg"] if tier == "quick" else ["MC_Merge_p1.cfg", "MC_Merge_p2.cfg", "MC_Merge_p3n1t.cfg", "MC_Merge_p3n2.cfg"]
    inputs, trace = base + ".in.ndjson", base + ".trace.ndjson"
    states = gen = n = 0
    with open(inputs, "w") as f:
        for cfg in cfgs:
            r = verif.model_check("MC_Merge", cfg, timeout=3000)
            states += r.distinct
            gen += r.generated
            seen = set()
            for s in r.tagged("INPUT"):
                if s not in seen:
                    seen.add(s)
                    f.write(s + "\n")
                    n += 1
    b = verif.build_driver("pure")
    verif.run_driver(b, "TestMergeReplay", env={"VERIF_INPUTS": inputs, "VERIF_TRACE": trace, "VERIF_REPS": 2 if tier == "quick" else 4}, timeout=7000)
    os.remove(inputs)
    viols, tr = verif.validate_trace("Trace_Merge", "Trace_Merge.cfg", trace, chunk=100000)
    lines = verif.read_lines(trace)
    multi = sum(1 for ln in lines if '"order":[1]' not in ln)
    return dict(trace=trace, viols=viols, states=states, transitions=gen, configs=cfgs + ["Trace_Merge.cfg"],
                traces={"*": len(lines)}, samples={"*": verif.samples_from(lines, 3)}, nontrivial={"C09": multi},
                notes="%d TLC-enumerated answer sets x every registration order x repetitions through the real cobalt.Manager with scripted plugins; design check FoldOrderFree on every input" % n)


_A_MG = ["plugins are scripted fakes implementing plugins.Plugin (only GetNodesDeployCapacity/Name are called); the manager is the real cobalt.Manager",
         "usage/rate dyadic (k/4); weighted averages compared as exact fractions with a 1e-6 rounding tolerance", "weights positive"]
prop("C09", "merge", "every answer set of 1-3 plugins over 1-2 nodes (offered or not, cap in {1,2,unlimited}, weights {1,2,100}, usage/rate) in every registration order, repeated (map order); non-trivial = more than one plugin", _A_MG)

ALSO["C07"] = ["merge"]


# =========================================================================== Txn: C17
@family("txn")
def fam_txn(tier, base):
    r = verif.model_check("Txn", "MC_Txn.cfg", coverage=True)
    dead = [a for a in ("Cancel", "BeginCond", "EndCond", "BeginThen", "EndThen", "BeginRb", "EndRb", "Return") if r.coverage.get(a, 0) == 0]
    if dead:
        raise Broken("Txn model: actions never taken: %s" % dead)
    trace = base + ".trace.ndjson"
    b = verif.build_driver("pure")
    verif.run_driver(b, "TestTxnReplay", env={"VERIF_TRACE": trace})
    viols, tr = verif.validate_trace("Trace_Txn", "Trace_Txn.cfg", trace)
    lines = verif.read_lines(trace)
    cases = sum(1 for ln in lines if '"ev":"Case"' in ln)
    rb = sum(1 for ln in lines if '"ev":"Begin"' in ln and '"which":"rollback"' in ln)
    return dict(trace=trace, viols=viols, states=r.distinct, transitions=r.generated, configs=["MC_Txn.cfg", "Trace_Txn.cfg"], window=8,
                traces={"*": cases}, samples={"*": [json.loads(x) for x in lines[:9]]}, nontrivial={"C17": rb}, actions_covered=r.coverage,
                notes="model: every outcome vector x every cancellation point (exhaustive, liveness Finishes under WF); code: the same %d cases on the real utils.Txn/PCR, %d of them ran a rollback" % (cases, rb))


prop("C17", "txn", "all outcome vectors (cond ok/fail, then ok/fail/absent, rollback ok/fail/absent) x cancellation before / during / after each step, for Txn and PCR; exhaustive; non-trivial = a rollback ran",
     ["steps are scripted closures that log their context's state at entry and exit; cancellation is issued from inside the steps, so every position is deterministic",
      "ttl of one minute is never reached"])


# =========================================================================== Wal: C16
@family("wal")
def fam_wal(tier, base):
    q = tier == "quick"
    inputs, trace = base + ".in.ndjson", base + ".trace.ndjson"
    states = gen = n = 0
    cfgs = []
    seen = set()
    with open(inputs, "w") as f:
        for cfg, sim in (("MC_Wal_quick.cfg" if q else "MC_Wal_thorough.cfg", None), ("MC_Wal_sim.cfg", "num=%d" % (30 if q else 2000))):
            if sim:
                r = verif.tlc("MC_Wal", cfg, simulate=sim, depth=14, workers=1, timeout=3000)
                if r.error:
                    raise Broken("simulation %s: %s" % (cfg, r.error))
            else:
                r = verif.model_check("MC_Wal", cfg, timeout=3000)
                states += r.distinct
                gen += r.generated
            cfgs.append(cfg)
            for s in r.tagged("INPUT"):
                if s not in seen:
                    seen.add(s)
                    f.write(s + "\n")
                    n += 1
    b = verif.build_driver("pure")
    nrand = 300 if q else 20000
    verif.run_driver(b, "TestWalReplay", env={"VERIF_INPUTS": inputs, "VERIF_TRACE": trace, "VERIF_RANDOM": nrand, "VERIF_PAR": 12}, timeout=7000)
    os.remove(inputs)
    viols, tr = verif.validate_trace("Trace_Wal", "Trace_Wal.cfg", trace, heap="16g")
    lines = verif.read_lines(trace)
    cnt = lambda s: sum(1 for ln in lines if s in ln)
    return dict(trace=trace, viols=viols, states=states, transitions=gen, configs=cfgs + ["Trace_Wal.cfg"], window=10, exhaustive=False,
                traces={"*": cnt('"ev":"Start"')}, samples={"*": [json.loads(x) for x in lines[:12]]},
                nontrivial={"C16": cnt('"op":"recover"')},
                notes="%d TLC-generated histories (all sequences of %d ops + simulated 12-op ones) + %d random histories incl. concurrent loggers, on a real wal.Hydro over a bbolt file; %d recoveries, %d reopens, %d handler examinations" % (n, 4 if q else 5, nrand, cnt('"op":"recover"'), cnt('"op":"reopen"'), cnt('"ev":"Examined"')))


prop("C16", "wal", "TLC-generated histories of log/commit/reopen/recover over 2-3 event types and scripted handler answers (ok, handle error, check error, not-needed, decode error, unknown type), random longer ones with 4 concurrent loggers; after every operation the real key set is read from a copy of the bbolt file; non-trivial = a recovery ran",
     ["a restart is Hydro.Close + NewHydro on the same file (same process); commit handles obtained before a restart are not used afterwards",
      "event ids are observed by copying the bbolt file and scanning the copy with kv.Lithium (no hook)"])


# =========================================================================== Engine: C31
@family("engine")
def fam_engine(tier, base):
    r = verif.model_check("MC_Engine", "MC_Engine.cfg")
    inputs, trace = base + ".in.ndjson", base + ".trace.ndjson"
    n = verif.emit_inputs(r, inputs)
    b = verif.build_driver("pure")
    nrand = 2000 if tier == "quick" else 100000
    verif.run_driver(b, "TestEngineReplay", env={"VERIF_INPUTS": inputs, "VERIF_TRACE": trace, "VERIF_RANDOM": nrand})
    os.remove(inputs)
    viols, tr = verif.validate_trace("Trace_Engine", "Trace_Engine.cfg", trace)
    lines = verif.read_lines(trace)
    bound = sum(1 for ln in lines if '"remap":false' in ln and 'true' in ln.split('"cores":[')[1].split(']')[0])
    return dict(trace=trace, viols=viols, states=r.distinct, transitions=r.generated, configs=["MC_Engine.cfg", "Trace_Engine.cfg"],
                traces={"*": len(lines)}, samples={"*": verif.samples_from(lines, 3)}, nontrivial={"C31": bound},
                notes="%d TLC-enumerated parameter sets (create and update) + %d random ones sent through the real docker engine client to a fake Docker daemon (HTTP) that records HostConfig / update resources" % (n, nrand))


prop("C31", "engine", "engine parameter sets of the shapes the cpumem plugin produces (bound, unbound, remapped; CPU limits 0..4 in 0.01 steps incl. 0.29/0.57/1.15; NUMA node or none; memory 0 / 4 MiB / 512 MiB) for both create and update; non-trivial = bound parameter set",
     ["the real engine/docker client (MakeClient) talks HTTP to an in-process fake Docker daemon that implements _ping, info, containers/create and containers/{id}/update and records the resource settings; node has 3 CPUs",
      "which cores an unbound workload may use is decided by the resource plugin (C32) and not judged here"])


# =========================================================================== Rpc: C35, C36
@family("rpc_auth")
def fam_rpc_auth(tier, base):
    r = verif.model_check("MC_Rpc", "MC_Rpc_auth.cfg")
    inputs, trace = base + ".in.ndjson", base + ".trace.ndjson"
    n = verif.emit_inputs(r, inputs)
    b = verif.build_driver("pure")
    verif.run_driver(b, "TestAuthReplay", env={"VERIF_INPUTS": inputs, "VERIF_TRACE": trace})
    os.remove(inputs)
    viols, tr = verif.validate_trace("Trace_Rpc", "Trace_Rpc.cfg", trace)
    lines = verif.read_lines(trace)
    acc = sum(1 for ln in lines if '"unary":"OK"' in ln)
    return dict(trace=trace, viols=viols, states=r.distinct, transitions=r.generated, configs=["MC_Rpc_auth.cfg", "Trace_Rpc.cfg"],
                traces={"*": len(lines)}, samples={"*": verif.samples_from(lines, 3)}, nontrivial={"C35": acc},
                notes="%d (server user, server password, client user, client password) quadruples, each a real grpc.Server with the auth interceptors (as core.go installs them) on bufconn, one unary (Info) and one streaming (WatchServiceStatus) call; %d accepted" % (n, acc))


@family("rpc_retry")
def fam_rpc_retry(tier, base):
    cfg = "MC_Rpc_retry_quick.cfg" if tier == "quick" else "MC_Rpc_retry_thorough.cfg"
    r = verif.model_check("MC_Rpc", cfg)
    inputs, trace = base + ".in.ndjson", base + ".trace.ndjson"
    n = verif.emit_inputs(r, inputs)
    b = verif.build_driver("pure")
    verif.run_driver(b, "TestRetryReplay", env={"VERIF_INPUTS": inputs, "VERIF_TRACE": trace, "VERIF_PAR": 48}, timeout=7000)
    os.remove(inputs)
    viols, tr = verif.validate_trace("Trace_Rpc", "Trace_Rpc.cfg", trace)
    lines = verif.read_lines(trace)
    retried = sum(1 for ln in lines if '"serverStreams":1,' not in ln)
    return dict(trace=trace, viols=viols, states=r.distinct, transitions=r.generated, configs=[cfg, "Trace_Rpc.cfg"],
                traces={"*": len(lines)}, samples={"*": verif.samples_from(lines, 3)}, nontrivial={"C36": retried},
                notes="%d scripts (stream lives x budget x cancellation point x method) against a scripted CoreRPC server on bufconn through the real NewStreamRetry interceptor; %d runs opened more than one server-side stream" % (n, retried))


prop("C35", "rpc_auth", "all quadruples over users {admin, Admin, a-b_c.d, x} and passwords {'', pw, Pw, 'p w!'}; exhaustive; non-trivial = accepted call",
     ["real gRPC client/server over an in-process bufconn connection; interceptors installed as core.go does", "usernames are gRPC metadata keys, which the transport lower-cases: user names are compared case-insensitively"])
prop("C36", "rpc_retry", "server scripts of 1-3 stream lives (0-2 messages, ending in error or EOF), retry budget 0-2, cancellation after 0/1/2 messages or never, for the two watch methods and one non-watch streaming method; non-trivial = more than one server-side stream",
     ["real exponential back-off (0.5 s initial): cases run in parallel", "the budget is read as Max retries after a first reopen (what the code does) or as Max reopen attempts; both are accepted",
      "after cancellation the number of server-side streams is re-read 150 ms later"])


# =========================================================================== Lock: C18, C19
@family("lock")
def fam_lock(tier, base):
    q = tier == "quick"
    r = verif.model_check("Lock", "MC_Lock.cfg", coverage=True)
    dead = [a for a in ("Call", "Acquire", "TryFail", "WaitTimeout", "Release", "Expire", "Notice", "Tick") if r.coverage.get(a, 0) == 0]
    if dead:
        raise Broken("Lock model: actions never taken: %s" % dead)
    # unbounded in the number of steps: Mutex and the notice bound follow from an inductive invariant (Apalache, 4 clients)
    verif.apalache_inductive("LockInd", "CInit", "IndInit", "IndInv")
    trace = base + ".trace.ndjson"
    b = verif.build_driver("locks")
    t1, t2 = base + ".t1", base + ".t2"
    verif.run_driver(b, "TestLockContention", env={"VERIF_TRACE": t1, "VERIF_RUNS": 2 if q else 16, "VERIF_CYCLES": 15 if q else 40, "VERIF_CROWDS": 3 if q else 12}, timeout=7000)
    verif.run_driver(b, "TestLockLoss", env={"VERIF_TRACE": t2, "VERIF_RUNS": 4 if q else 16}, timeout=7000)
    with open(trace, "w") as f:
        f.write(open(t1).read() + open(t2).read())
    os.remove(t1); os.remove(t2)
    viols, tr = verif.validate_trace("Trace_Lock", "Trace_Lock.cfg", trace)
    lines = verif.read_lines(trace)
    cnt = lambda s: sum(1 for ln in lines if s in ln)
    if cnt('"ev":"LockRun"') < (3 if q else 20) or cnt('"ev":"LossRun"') < (4 if q else 16):
        raise Broken("too many lock runs were dropped because the driver process was starved of CPU (%d contention, %d loss runs left)" % (cnt('"ev":"LockRun"'), cnt('"ev":"LossRun"')))
    return dict(trace=trace, viols=viols, states=r.distinct, transitions=r.generated, configs=["MC_Lock.cfg", "LockInd.tla (Apalache: IndInv inductive)", "Trace_Lock.cfg"], window=6,
                traces={"C18": cnt('"ev":"LockRun"') + cnt('"ev":"LossRun"'), "C19": cnt('"ev":"LossRun"')},
                samples={"*": [json.loads(x) for x in lines[:6]], "C19": [json.loads(x) for x in lines if '"Expire"' in x or '"CtxDone"' in x][:4]},
                nontrivial={"C18": cnt('"ev":"Enter"'), "C19": cnt('"ev":"Expire"')}, actions_covered=r.coverage, exhaustive=True,
                notes="model: 3 clients, exhaustive, liveness LostIsTold; code: %d lock cycles entered, %d failed attempts (try-lock on held lock / wait timeout), %d induced lock losses, on embedded etcd and miniredis" % (cnt('"ev":"Enter"'), cnt('"ev":"Fail"'), cnt('"ev":"Expire"')))


_A_LK = ["lock objects come from store.CreateLock (etcd: meta.ETCD on embedded etcd; redis: store/redis on miniredis), one new object per attempt as calcium does",
         "Enter is logged after Lock returned and Exit before Unlock is called, under one sequence counter: a logged overlap is a real overlap",
         "real time: try-lock must fail within 400 ms (normal ~1 ms; redis retry back-off is 500 ms); a wait may give up at most 600 ms before its timeout (redis polls every 500 ms)"]
prop("C18", "lock", "3-6 contenders x seeded random hold times (0-30 ms, some longer than the wait timeout) mixing lock and try-lock on one key, both backends; non-trivial = critical sections entered", _A_LK)
prop("C19", "lock", "holder's lease revoked (etcd: lease of the lowest-revision key under the lock prefix) or TTL elapsed (miniredis FastForward plus real time) while a second contender waits; bound = ttl/3 + 700 ms (+ 500 ms on etcd: its client's keepalive loop wakes every 500 ms); non-trivial = induced losses",
     _A_LK + ["miniredis keeps virtual time: the redis TTL is elapsed both in real time and with FastForward"])


# =========================================================================== Ephemeral: C26
@family("ephemeral")
def fam_ephemeral(tier, base):
    cfg = "MC_Ephemeral.cfg" if tier == "quick" else "MC_Ephemeral_thorough.cfg"
    r = verif.model_check("MC_Ephemeral", cfg)
    inputs, trace = base + ".in.ndjson", base + ".trace.ndjson"
    n = verif.emit_inputs(r, inputs)
    b = verif.build_driver("locks")
    verif.run_driver(b, "TestEphemeral", env={"VERIF_INPUTS": inputs, "VERIF_TRACE": trace, "VERIF_PAR": 48}, timeout=7000)
    os.remove(inputs)
    viols, tr = verif.validate_trace("Trace_Ephemeral", "Trace_Ephemeral.cfg", trace)
    lines = verif.read_lines(trace)
    cnt = lambda s: sum(1 for ln in lines if s in ln)
    if cnt('"ev":"EphRun"') < n:      # every schedule runs on two backends: at least half must have been judgeable
        raise Broken("too many ephemeral schedules were dropped because the driver process was starved of CPU (%d of %d left)" % (cnt('"ev":"EphRun"'), 2 * n))
    return dict(trace=trace, viols=viols, states=r.distinct, transitions=r.generated, configs=[cfg, "Trace_Ephemeral.cfg"], window=12,
                traces={"*": cnt('"ev":"EphRun"')}, samples={"*": [json.loads(x) for x in lines[:9]]}, nontrivial={"C26": cnt('"op":"lapse"')},
                notes="%d TLC-generated schedules (all register/lapse/deregister sequences of %d ops over %d registrants, model invariants Exclusive/OwnerSafe, liveness LapseNoticed) replayed on both backends; %d induced lapses" % (n, 5 if tier == "quick" else 6, 2 if tier == "quick" else 3, cnt('"op":"lapse"')))


prop("C26", "ephemeral", "every schedule of register / lapse / deregister of the given length over 2-3 registrants on one key, on etcd (lapse = lease revocation) and redis (lapse = TTL elapsed in miniredis virtual time); observed after each step and a settle time longer than one heartbeat tick; non-trivial = schedules with a lapse",
     ["registrations are made with store.StartEphemeral (what RegisterService and the active node-status watcher call)", "etcd heartbeat 3 s / settle 1.4 s, redis heartbeat 2 s / settle 0.9 s; etcd ownership read back from the key's lease id; redis has no owner identity, ownership is rebuilt from the event order",
      "a pause longer than the TTL is modelled by the lapse itself (the registrant's goroutine keeps running)"])


# =========================================================================== Store: C23 (+ C24 reference queries)
def _sim_inputs(mod, cfg, num, depth, f, seen, timeout=3000, keep=None):
    """Simulated behaviours printed as INPUT lines. The simulator evaluates the constraint on every
    candidate successor, so one behaviour prints many variants of its last step: keep at most `keep`
    of the distinct lines, spread evenly."""
    r = verif.tlc(mod, cfg, simulate="num=%d" % num, depth=depth, workers=1, timeout=timeout)
    if r.error:
        raise Broken("simulation %s: %s\n%s" % (cfg, r.error, r.stdout[-2000:]))
    n = 0
    lines = [s for s in dict.fromkeys(r.tagged("INPUT")) if s not in seen]
    if keep and len(lines) > keep:
        step = len(lines) / float(keep)
        lines = [lines[int(i * step)] for i in range(keep)]
    for s in lines:
        seen.add(s)
        f.write(s + "\n")
        n += 1
    m = __import__("re").search(r"The number of states generated: (\d+)", r.stdout)
    return n, int(m.group(1)) if m else 0


@family("store")
def fam_store(tier, base):
    q = tier == "quick"
    inputs, trace = base + ".in.ndjson", base + ".trace.ndjson"
    r = verif.model_check("MC_Store", "MC_Store_small.cfg", timeout=3000)
    seen = set()
    with open(inputs, "w") as f:
        n, gen = _sim_inputs("MC_Store", "MC_Store_sim.cfg", 60 if q else 1500, 16, f, seen, keep=600 if q else 40000)
    b = verif.build_driver("storecmp")
    verif.run_driver(b, "TestStoreDiff", env={"VERIF_INPUTS": inputs, "VERIF_TRACE": trace, "VERIF_PAR": 16}, timeout=7000)
    os.remove(inputs)
    viols, tr = verif.validate_trace("Trace_Store", "Trace_Store.cfg", trace, heap="16g")
    lines = verif.read_lines(trace)
    cnt = lambda s: sum(1 for ln in lines if s in ln)
    refdev = sorted({v["sig"] for v in viols if v["property"] == "REF"})
    return dict(trace=trace, viols=viols, states=r.distinct, transitions=r.generated + gen, configs=["MC_Store_small.cfg", "MC_Store_sim.cfg", "Trace_Store.cfg"], window=15,
                exhaustive=False, traces={"*": cnt('"ev":"StoreRun"')}, samples={"*": [json.loads(x) for x in lines[:3]]},
                nontrivial={"C23": cnt('"classE":"err"'), "C24": cnt('"ev":"StoreOp"')},
                notes="%d TLC-simulated call sequences (14 calls each) executed on etcdv3.Mercury (embedded etcd) and redis.Rediaron (miniredis); %d calls, each followed by a full read-back of both stores, judged against the Store reference and against each other; reference deviations outside any property (diagnostic): %s" % (n, cnt('"ev":"StoreOp"'), refdev or "none"))


_A_ST = ["etcd = store/etcdv3 on an embedded single-member etcd; redis = store/redis on miniredis (no keyspace notifications: streams are not exercised)",
         "nodes use mock:// endpoints (always-available test nodes); TTLs in these sequences are 600 s, time does not pass (expiry is C25's subject)",
         "limited lists are compared by size; list results as sets of id@node",
         "where the backends disagree the reference follows etcd; a run is judged up to its first divergence"]
prop("C23", "store", "TLC-simulated sequences of 12 API call kinds over 2 pods, 3 nodes, 4 workloads (2 apps, 2 entrypoints), 1 processing ident, incl. duplicates, missing entities, mismatched nodes, label filter, certificates; result class and full read-back compared etcd vs redis vs reference after every call; non-trivial = calls that fail on etcd", _A_ST)


# =========================================================================== Store names: C24
@family("store_names")
def fam_store_names(tier, base):
    q = tier == "quick"
    inputs, trace = base + ".in.ndjson", base + ".trace.ndjson"
    r = verif.model_check("MC_StoreNames", "MC_StoreNames.cfg", timeout=3000, workers=1)
    allin = list(dict.fromkeys(r.tagged("INPUT")))
    every = 16 if q else 1
    sel = [x for x in allin if int(hashlib.sha256((x + str(verif.seed())).encode()).hexdigest()[:8], 16) % every == 0]
    with open(inputs, "w") as f:
        f.write("\n".join(sel) + "\n")
    b = verif.build_driver("storecmp")
    verif.run_driver_sharded(b, "TestStoreNames", inputs, trace, shards=12, timeout=7000)
    os.remove(inputs)
    viols, tr = verif.validate_trace("Trace_StoreNames", "Trace_StoreNames.cfg", trace, heap="16g", chunk=4000)
    lines = verif.read_lines(trace)
    nq = sum(ln.count('"k":"list"') + ln.count('"k":"deploy"') for ln in lines)
    return dict(trace=trace, viols=viols, states=r.distinct, transitions=r.generated, configs=["MC_StoreNames.cfg", "Trace_StoreNames.cfg"], window=0,
                traces={"*": len(lines)}, samples={"*": [{k: v for k, v in json.loads(x).items() if k != "queries"} for x in lines[:3]]},
                nontrivial={"C24": nq},
                notes="%d of %d TLC-enumerated two-workload naming scenarios (10 app x 5 entrypoint x 4 node names incl. '_', '/', leading '/', '..', '.', glob characters) whose names the request validation accepts, created on both stores; %d list / deploy-status answers judged against the record-level reference (design check: the key layout is exact for plain names)" % (len(lines), len(sel), nq))


prop("C24", "store_names", "every ordered pair of workloads over 10 application x 5 entrypoint x 4 node names (quick: every 16th), all filter combinations of ListWorkloads and GetDeployStatus on both stores, name round-trip; non-trivial = query answers judged",
     ["names are filtered by the real DeployOptions.Validate / Entrypoint.Validate / AddNodeOptions.Validate; only accepted names are used",
      "status streams are not exercised on redis (miniredis has no keyspace notifications)", "stores are wiped between scenarios; one driver process per shard"])
ALSO["C24"] = ["store"]


# =========================================================================== Store status: C25
@family("store_status")
def fam_store_status(tier, base):
    q = tier == "quick"
    inputs, trace = base + ".in.ndjson", base + ".trace.ndjson"
    r = verif.model_check("MC_StoreStatus", "MC_StoreStatus_small.cfg", timeout=3000)
    seen = set()
    with open(inputs, "w") as f:
        n, gen = _sim_inputs("MC_StoreStatus", "MC_StoreStatus_sim.cfg", 40 if q else 400, 12, f, seen, keep=120 if q else 2400)
        # every sequence of 3 (thorough: 4) reports / ticks on recorded entities: all of them on redis (virtual time), a sample on etcd
        rx = verif.model_check("MC_StoreStatus", "MC_StoreStatus_exh3.cfg" if q else "MC_StoreStatus_exh4.cfg", timeout=3000, workers=1)
        nx = 0
        for x in dict.fromkeys(rx.tagged("INPUT")):
            if x not in seen:
                seen.add(x)
                f.write(x + "\n")
                nx += 1
    b = verif.build_driver("storecmp")
    total = n + nx
    verif.run_driver(b, "TestStoreStatus", env={"VERIF_INPUTS": inputs, "VERIF_TRACE": trace, "VERIF_PAR": 150 if q else 300,
                                                "VERIF_ETCD_EVERY": max(1, total // (240 if q else 3000))}, timeout=7000)
    n = total
    os.remove(inputs)
    viols, tr = verif.validate_trace("Trace_StoreStatus", "Trace_StoreStatus.cfg", trace, heap="8g")
    lines = verif.read_lines(trace)
    cnt = lambda s: sum(1 for ln in lines if s in ln)
    if cnt('"b":"etcd","ev":"StRun"') < (60 if q else 600):
        raise Broken("too many etcd status sequences were dropped because the driver process was starved of CPU (%d left)" % cnt('"b":"etcd","ev":"StRun"'))
    return dict(trace=trace, viols=viols, states=r.distinct, transitions=r.generated + gen, configs=["MC_StoreStatus_small.cfg", "MC_StoreStatus_sim.cfg", "Trace_StoreStatus.cfg"], window=11,
                exhaustive=False, traces={"*": cnt('"ev":"StRun"')}, samples={"*": [json.loads(x) for x in lines[:4]]},
                nontrivial={"C25": cnt('"op":"report"')},
                notes="%d TLC-simulated sequences (10 steps: add/remove entity, report with TTL 4/8/0/-1 s and value A/B, ticks of 2/3/7 s) run on etcd in real time and on redis in virtual time; %d status reports, statuses read back after every step" % (n, cnt('"op":"report"')))


prop("C25", "store_status", "TLC-simulated sequences over one node and one workload: reports with positive / zero / negative TTL, same and changed values, TTL changes, entity removal and re-creation, time passing; acceptance and visibility judged after every step on both stores; non-trivial = status reports",
     ["etcd in real time on an embedded etcd: a status must be visible until 1.0 s before its lapse and gone 2.5 s after it (etcd revokes expired leases lazily); nothing is required in between",
      "redis on miniredis with FastForward (virtual time, no slack)", "a workload's status is read through GetWorkloadStatus and therefore only while the workload is recorded; after an entity is removed its status may or may not be visible until the next report"])


# =========================================================================== Cluster: C10-C14, C20, C22 (single operation, fault / crash placements)
@family("cluster")
def fam_cluster(tier, base):
    q = tier == "quick"
    cfg = "MC_ClusterScen_quick.cfg" if q else "MC_ClusterScen_thorough.cfg"
    r = verif.model_check("MC_ClusterScen", cfg, timeout=3000, workers=1)
    # design level: the deployment step machine (one step per external call, one failure, crash + recovery) satisfies
    # C13's bounds, leaves nothing behind when it returns and is repaired by recovery; with the clean-up order as found
    # (WAL events committed before the markers are deleted) TLC must exhibit the marker that survives recovery
    rc = verif.model_check("MC_ClusterCreate", "MC_ClusterCreate_fixed.cfg", timeout=3000)
    ra = verif.tlc("MC_ClusterCreate", "MC_ClusterCreate_asfound.cfg", timeout=3000)
    if ra.error != "invariant:RecoveredClean":
        raise Broken("ClusterCreate with the clean-up order as found: expected RecoveredClean to fail, got %s" % ra.error)
    # recovery itself as a step machine (events in log order, one step per external call of each handler, the event deleted
    # last): running to its end it must repair exactly what the atomic model of recovery repairs (C14's quantifier), and
    # always ends. Beyond C14 (diagnostic): when the recovering instance may itself stop once, TLC exhibits the usage that is
    # given back twice (RemoveWorkload gives the usage back before it removes the record; the event is deleted last).
    rs = verif.model_check("MC_ClusterCreate", "MC_ClusterCreate_recsteps.cfg", timeout=3000)
    rd = verif.tlc("MC_ClusterCreate", "MC_ClusterCreate_reccrash.cfg", timeout=3000)
    if rd.error != "invariant:RecoveredClean":
        raise Broken("ClusterCreate with a crash during recovery: %s" % rd.error)
    # ... and the candidate repair (the created-workload handler ends by repairing the node's usage from the records) makes
    # recovery clean again with up to two crashes of the recovering instance
    verif.model_check("MC_ClusterCreate", "MC_ClusterCreate_reccrash_repaired.cfg", timeout=3000)
    inputs, trace = base + ".in.ndjson", base + ".trace.ndjson"
    every = 4 if q else 2
    sel = []
    for x in dict.fromkeys(r.tagged("INPUT")):
        d = json.loads(x)
        # deployments make 30-60 external calls: sample their placements; every other operation: all placements
        d["every"] = every if d["op"]["kind"] == "create" else 1
        # a fault or crash is only dangerous at particular points: EVERY point for the AUTO / bound-request deployments,
        # a sample for the other deployments (quick: no crash runs for those)
        if d["op"]["kind"] == "create" and d["op"]["strategy"] == "AUTO" and d["op"]["req"] == "b":
            d["every"] = 1
        elif d["mode"] == "crash" and q:
            continue
        # "the caller gives up before call k": every placement for the operations with few calls, a sample for deployments
        if d["mode"] == "cancel" and d["op"]["kind"] == "create" and not (d["op"]["strategy"] == "AUTO" and d["op"]["req"] == "b"):
            if q:
                continue
            d["every"] = 3
        elif d["mode"] == "cancel" and d["op"]["kind"] == "create" and q:
            d["every"] = 2
        sel.append(json.dumps(d))
    with open(inputs, "w") as f:
        f.write("\n".join(sel) + "\n")
    b = verif.build_driver("cluster")
    verif.run_driver_sharded(b, "TestClusterFaults", inputs, trace, shards=14, timeout=7000)
    # the deployments again with the redis metadata store (C13: both backends): fault mode, sampled placements
    rin, rtrace = base + ".redis.in.ndjson", base + ".redis.trace.ndjson"
    with open(rin, "w") as f:
        for x in sel:
            d = json.loads(x)
            if d["op"]["kind"] in ("create", "lambda") and d["mode"] not in ("crash", "cancel") and (not q or (d["op"]["req"] == "b" and d["nodes"][0]["kind"] == "plain2")):
                d["every"] = 3 if d["op"]["kind"] == "create" else 1
                f.write(json.dumps(d) + "\n")
    verif.run_driver_sharded(b, "TestClusterFaults", rin, rtrace, shards=14, timeout=7000, env={"VERIF_STORE": "redis"})
    with open(trace, "a") as f:
        f.write(open(rtrace).read())
    os.remove(rin); os.remove(rtrace)
    # slow steps: a core instance with a global timeout of 1.5 s; call k of the operation takes longer than that (every
    # deadline that covers it passes while it hangs), then is made under whatever is left of its context
    sin, strace = base + ".slow.in.ndjson", base + ".slow.trace.ndjson"
    picked = {}
    for x in sel:
        d = json.loads(x)
        o = d["op"]
        if d["mode"] != "fault" or d["nodes"][0]["kind"] != "plain2" or len(d["nodes"]) != 2 or d["nodes"][0]["down"]:
            continue
        if o["kind"] == "create":
            if not (o["strategy"] == "AUTO" and o["count"] == 2 and not o["nodes"] and not d["wls"]):
                continue
            key = ("create", o["req"])
            d["every"] = 3 if q else 1
        elif o["kind"] in ("remove", "dissociate", "realloc", "replace", "setnode", "addnode", "removenode"):
            if len(o["targets"]) > 1 or (o["kind"] == "remove" and not o["force"]) or (o["kind"] == "realloc" and o["delta"] != "cpu+") or (o["kind"] == "addnode" and o["nodes"] != ["n9"]):
                continue
            key = (o["kind"], "")
            d["every"] = 2 if q else 1
        else:
            continue
        if key not in picked:
            d["mode"] = "timeout"
            picked[key] = d
    with open(sin, "w") as f:
        f.write("\n".join(json.dumps(d) for d in picked.values()) + "\n")
    verif.run_driver_sharded(b, "TestClusterFaults", sin, strace, shards=14, timeout=7000, env={"VERIF_GT_MS": "1500"})
    with open(trace, "a") as f:
        f.write(open(strace).read())
    os.remove(sin); os.remove(strace)
    os.remove(inputs)
    viols, tr = verif.validate_trace("Trace_Cluster", "Trace_Cluster.cfg", trace, heap="16g")
    # second pass: the calls each single-workload remove / dissociate / realloc made are a behaviour of the ClusterOps
    # step machine and end in the machine's final state (diagnostic: REF)
    verif.model_check("MC_ClusterOps", "MC_ClusterOps.cfg", timeout=600, workers=1)
    v2, _ = verif.validate_trace("Trace_ClusterOps", "Trace_ClusterOps.cfg", trace, heap="16g")
    viols = viols + v2
    lines = verif.read_lines(trace)
    cnt = lambda s: sum(1 for ln in lines if s in ln)
    runs, faults, crashes = cnt('"ev":"Run"'), cnt('"class":"injected"'), cnt('"ev":"Crash"')
    refdev = sorted({v["sig"] for v in viols if v["property"] == "REF"})
    envfail = cnt('"class":"envfail"')
    if envfail > max(3, runs // 50):
        raise Broken("the embedded etcd failed %d times in %d runs (overloaded machine?): too many runs could not be judged" % (envfail, runs))
    return dict(trace=trace, viols=viols, states=r.distinct + rc.distinct + rs.distinct, transitions=r.generated + rc.generated + rs.generated,
                configs=[cfg, "MC_ClusterCreate_fixed.cfg", "MC_ClusterCreate_asfound.cfg", "MC_ClusterCreate_recsteps.cfg", "Trace_Cluster.cfg"], window=80,
                traces={"*": runs, "C14": crashes}, samples={"*": [json.loads(x) for x in lines[:2]]},
                nontrivial={"C10": runs, "C11": faults, "C12": cnt('"kind":"create","op":"op"'), "C13": cnt('"obs":['), "C14": crashes, "C20": cnt('"target":"lock"'), "C22": runs, "C30": cnt('"ev":"Call","kind":"lambda"')},
                notes="%d TLC-enumerated scenarios (node layout x pre-deployed workloads x operation); each run fault-free and then with every single-fault placement (deployments: every %s single-fault / crash placement) among its external calls: %d runs, %d injected failures, %d crashes followed by recovery in a fresh core instance; deviations outside the listed properties (control calls; diagnostic): %s" % (len(sel), "%d-th" % every if every > 1 else "", runs, faults, crashes, refdev or "none"))


_A_CL = ["real calcium.Calcium on an embedded etcd with the real cobalt manager + cpumem plugin and a real bbolt WAL; store, manager and WAL are wrapped through the verif hook, engines are stateful fakes substituted on every node/workload",
         "external calls are serialised by the harness gate; a fault = the k-th external call returns an injected error without being performed; exactly one fault per run, so every later (compensating) call succeeds",
         "a crash = at the k-th external call the instance stops for ever (all its later calls block without effect), its locks are released as lease expiry would, its WAL file is closed; a new Calcium on the same store and WAL file then runs DisasterRecover (simulated crash, same process)",
         "share base 100; nodes of 2-4 cores, memory in abstract units; requests: unbound 0.5 cpu, bound 1.0 / 0.5 / 3.0 cpu"]
prop("C10", "cluster", "every scenario x every sampled single-fault placement; after each run (and in each pre-state, itself built through the API) every node's usage is compared with the sum of its recorded workloads per component, with capacity, and with the node resource check; non-trivial = runs", _A_CL)
prop("C11", "cluster", "same runs; an operation (or per-workload part) that reports failure must leave pods, nodes, capacity, usage and workloads as before; non-trivial = runs with an injected failure", _A_CL)
prop("C12", "cluster", "create scenarios (4 strategies x counts x requests x include lists x pre-states) fault-free and with every sampled fault: stream closes, one error or one message per planned instance (planned = sum of the allocation calls), each success recorded + started + placed as reported, failures leave nothing; non-trivial = create runs", _A_CL)
prop("C13", "cluster", "create scenarios: after EVERY external call of the deployment the real deploy status and the recorded workloads are read (under the gate) and compared with prior + planned; after return no marker of the application remains; non-trivial = observations", _A_CL + ["observed on the etcd store for every scenario and on the redis store (miniredis) for the deployment scenarios (sampled placements); the marker arithmetic under concurrent instance recording is the store_conc family (etcd: redis executes it in one Lua script)"])
prop("C14", "cluster", "create / remove / replace scenarios with a crash before each sampled external call, then recovery in a fresh instance; non-trivial = crashes", _A_CL)
prop("C30", "cluster", "run-and-wait scenarios: count 1-3 x bound/unbound request x stdin or not x engine outcome {exit 0, exit 3, logs fail, wait fails, attach fails} over the node layouts; message stream + state after the stream closed; non-trivial = run-and-wait runs", _A_CL)
prop("C22", "cluster", "referential consistency predicates on every pre- and post-state of the runs (sequential and faulted); concurrent histories are the cluster_conc family; non-trivial = runs", _A_CL)


# =========================================================================== Node selection + lock order: C21, C20
@family("select")
def fam_select(tier, base):
    r = verif.model_check("MC_NodeSelect", "MC_NodeSelect.cfg", timeout=3000, workers=1)
    inputs, trace = base + ".in.ndjson", base + ".trace.ndjson"
    n = verif.emit_inputs(r, inputs)
    b = verif.build_driver("cluster")
    verif.run_driver_sharded(b, "TestClusterSelect", inputs, trace, shards=6, timeout=7000)
    os.remove(inputs)
    viols, tr = verif.validate_trace("Trace_NodeSelect", "Trace_NodeSelect.cfg", trace)
    lines = verif.read_lines(trace)
    cnt = lambda s: sum(1 for ln in lines if s in ln)
    return dict(trace=trace, viols=viols, states=r.distinct, transitions=r.generated, configs=["MC_NodeSelect.cfg", "Trace_NodeSelect.cfg"], window=3,
                traces={"*": cnt('"ev":"Select"')}, samples={"*": [json.loads(x) for x in lines[:3]]},
                nontrivial={"C21": cnt('"ev":"Select"'), "C20": cnt('"ev":"SelLock"')},
                notes="%d TLC-enumerated node filters (every include list of 1-3 names over 5 nodes in 2 pods and a missing name, with repeats and in every order; pod / all-pods selection x excludes x label x all) used in Calcium.CalculateCapacity on a universe with up, bypassed, down and bypassed-but-alive nodes; the node set passed to the resource manager and the lock sequence are judged" % n)


prop("C21", "select", "every enumerated node filter; observed = the node names the wrapped resource manager is asked about under that filter (the nodes of the locked callback); non-trivial = filters", _A_CL[:1] + ["real (non-mock) nodes have no engine: they are written directly to store and plugin; their heartbeat is a node status with a long TTL"])
prop("C20", "select", "lock sequences of node-filtered operations over the enumerated filters (include lists in any order across two pods) + every operation of the cluster family (create, remove, dissociate, realloc, replace, set-node, remove-node, remove-pod, node-resource, remap) with its nested helpers; the locks held on the calling path = those that travel in the context returned by Lock plus those the calling goroutine itself acquired and still holds; also under worker-pool pressure (cluster_pool); non-trivial = lock acquisitions judged", _A_CL[:1])
ALSO["C20"] = ["cluster"]


# =========================================================================== Send: C29
@family("send")
def fam_send(tier, base):
    stats = {}
    for cfg, expect in (("MC_Send_ok.cfg", None), ("MC_Send_repaired.cfg", None)):
        r = verif.model_check("MC_Send", cfg, timeout=3000)
        stats[cfg] = (r.distinct, r.generated)
    rc = verif.model_check("MC_SendCases", "MC_SendCases.cfg", timeout=3000, workers=1)
    inputs, trace = base + ".in.ndjson", base + ".trace.ndjson"
    n = verif.emit_inputs(rc, inputs)
    b = verif.build_driver("cluster")
    verif.CRASHES = []
    verif.run_driver_sharded(b, "TestClusterSend", inputs, trace, shards=10, timeout=7000, crash_property="C29")
    os.remove(inputs)
    viols, tr = verif.validate_trace("Trace_Send", "Trace_Send.cfg", trace)
    viols = viols + verif.CRASHES        # a transfer that kills the process does not finish
    lines = verif.read_lines(trace)
    cnt = lambda s: sum(1 for ln in lines if s in ln)
    return dict(trace=trace, viols=viols, states=sum(v[0] for v in stats.values()), transitions=sum(v[1] for v in stats.values()),
                configs=["MC_Send_ok.cfg", "MC_Send_repaired.cfg", "MC_SendCases.cfg", "Trace_Send.cfg"], window=1,
                traces={"*": len(lines)}, samples={"*": [json.loads(x) for x in lines[:3]]}, nontrivial={"C29": len(lines) - cnt('"targets":"missing"')},
                notes="design: the per-target pipeline (buffer, sender, synchronous pipe, reader) is deadlock-free and finishes with readers that read, refuse or abort (3 targets, 5 chunks, buffer 2; liveness under fairness); code: %d TLC-enumerated cases (8 sizes incl. 0 and chunk-size multiples x 5 target sets x engine reads / refuses / aborts x Send / SendLargeFile) through the real rpc handlers; %d calls hung" % (n, cnt('"class":"hang"')))


prop("C29", "send", "every case of MC_SendCases: sizes {0, 1, 2047, 2048, 2049, 4096, 22529, 53248} x targets {one, two, missing, one+missing, duplicated} x engine behaviour of the first target {reads all, refuses, aborts after 1.5 KB} x {Send, SendLargeFile}; non-trivial = cases with an existing target",
     _A_CL[:1] + ["rpc.Vibranium.Send / SendLargeFile are called directly with an in-memory server stream (no network); the fake engine's copy call records bytes, owner and mode; content compared by length and SHA-256 prefix",
                  "a call that has not returned after 8 s (normal: < 50 ms) is a hang"])


# =========================================================================== Selfmon: C28
@family("selfmon")
def fam_selfmon(tier, base):
    q = tier == "quick"
    r = verif.model_check("MC_Selfmon", "MC_Selfmon_small.cfg", timeout=3000)
    inputs, trace = base + ".in.ndjson", base + ".trace.ndjson"
    seen = set()
    with open(inputs, "w") as f:
        n, gen = _sim_inputs("MC_Selfmon", "MC_Selfmon_sim.cfg", 30 if q else 600, 40, f, seen, keep=40 if q else 1200)
        # every sequence of 4 (thorough: 6) heartbeats / lapses / agent reports on one node with a running watcher
        rf = verif.model_check("MC_Selfmon", "MC_Selfmon_focus4.cfg" if q else "MC_Selfmon_focus6.cfg", timeout=3000, workers=1)
        # every sequence of 3 steps on nodes that have a workload, the watcher started by one of them - plainly, or with a
        # node's status disappearing while its initial scan is under way
        rs = verif.model_check("MC_Selfmon", "MC_Selfmon_startup.cfg", timeout=3000, workers=1)
        for x in list(dict.fromkeys(rf.tagged("INPUT"))) + [y for y in dict.fromkeys(rs.tagged("INPUT")) if "startlapse" in y]:
            if x not in seen:
                seen.add(x)
                f.write(x + "\n")
                n += 1
    b = verif.build_driver("cluster")
    verif.run_driver_sharded(b, "TestClusterSelfmon", inputs, trace, shards=12, timeout=7000)
    os.remove(inputs)
    viols, tr = verif.validate_trace("Trace_Selfmon", "Trace_Selfmon.cfg", trace)
    lines = verif.read_lines(trace)
    cnt = lambda s: sum(1 for ln in lines if s in ln)
    if cnt('"starved":true') > max(2, len(lines) // 5):
        raise Broken("the driver process was starved of CPU during %d of %d histories" % (cnt('"starved":true'), len(lines)))
    return dict(trace=trace, viols=viols, states=r.distinct, transitions=r.generated + gen, configs=["MC_Selfmon_small.cfg", "MC_Selfmon_sim.cfg", "Trace_Selfmon.cfg"], window=1,
                exhaustive=False, traces={"*": len(lines)}, samples={"*": [json.loads(x) for x in lines[:2]]},
                nontrivial={"C28": sum(1 for ln in lines if '"started":true' in ln and ('"op":"lapse"' in ln or '"op":"expire"' in ln))},
                notes="model: 2 nodes, environment + watcher (initial scan, lapse handling), exhaustive to 5 environment steps with liveness LapseLeadsToDown under fairness; code: %d simulated histories of 9 steps (heartbeat, delete, expiry, new workload, agent report, watcher start, pause) with the real selfmon.RunNodeStatusWatcher on a real Calcium" % n)


prop("C28", "selfmon", "TLC-simulated histories over two real (non-test) nodes with up to 2 workloads each; the watcher is started before or after the lapses; statuses polled for up to 12 s (normal reaction < 0.3 s); non-trivial = histories with a watcher and a lapse",
     _A_CL[:1] + ["etcd store only: the node-status stream needs store notifications, which the offline redis (miniredis) does not emit", "real nodes have an unreachable engine endpoint; workloads are recorded through the store and reported up by a simulated agent (status with TTL 0)",
                  "'eventually' = within 12 s of the end of the history"])


# =========================================================================== Discovery: C27
@family("discovery")
def fam_discovery(tier, base):
    q = tier == "quick"
    r = verif.model_check("MC_Discovery", "MC_Discovery_ok.cfg", timeout=3000)
    # the named deviation: with a stalled subscriber the design itself loses liveness (TLC must exhibit it)
    rs = verif.tlc("MC_Discovery", "MC_Discovery_stalled.cfg", timeout=3000)
    if rs.error != "property":
        raise Broken("Discovery model with a stalled subscriber: expected a liveness counterexample, got %s" % rs.error)
    inputs, trace = base + ".in.ndjson", base + ".trace.ndjson"
    seen = set()
    with open(inputs, "w") as f:
        n, gen = _sim_inputs("MC_Discovery", "MC_Discovery_sim.cfg", 30 if q else 500, 60, f, seen, keep=70 if q else 1500)
        n2, gen2 = _sim_inputs("MC_Discovery", "MC_Discovery_simstalled.cfg", 10, 60, f, seen, keep=6 if q else 60)
    b = verif.build_driver("cluster")
    verif.run_driver_sharded(b, "TestClusterDiscovery", inputs, trace, shards=14, timeout=7000)
    os.remove(inputs)
    viols, tr = verif.validate_trace("Trace_Discovery", "Trace_Discovery.cfg", trace)
    lines = verif.read_lines(trace)
    cnt = lambda s: sum(1 for ln in lines if s in ln)
    if cnt('"envfail":true') > max(2, len(lines) // 10):
        raise Broken("the store ended the service stream in %d of %d schedules (overloaded machine?)" % (cnt('"envfail":true'), len(lines)))
    return dict(trace=trace, viols=viols, states=r.distinct, transitions=r.generated + gen + gen2, configs=["MC_Discovery_ok.cfg", "MC_Discovery_stalled.cfg", "MC_Discovery_sim.cfg", "MC_Discovery_simstalled.cfg", "Trace_Discovery.cfg"], window=1,
                exhaustive=False, traces={"*": len(lines)}, samples={"*": [json.loads(x) for x in lines[:2]]},
                nontrivial={"C27": cnt('"op":"sub"')},
                notes="model: 2 addresses, reader + slow reader, every interleaving of 4 environment steps with the single-goroutine dispatch loop, liveness (Converges, UnsubscribeCompletes) under strong fairness of the select cases - holds; with a stalled subscriber TLC exhibits the loss of liveness (checked to still be exhibited); code: %d simulated schedules of 8 steps (+%d with a stalled subscriber) on the real etcd service stream and helium (push interval 1 s)" % (n, n2))


prop("C27", "discovery", "TLC-simulated schedules of register / deregister / subscribe / unsubscribe over 3 addresses and 3 subscribers (reader, slow reader 300 ms per message, reader), plus schedules with a subscriber that stops reading; final state judged one push interval + allowance after the last step; non-trivial = schedules with a subscriber",
     ["real store/etcdv3 service stream on an embedded etcd and the real discovery/helium dispatcher (push interval 1 s, the minimum it accepts); registrations through store.RegisterService (what Calcium.RegisterService calls)",
      "convergence is judged 2.6 s after the last step (one interval + the slow reader's lag + allowance); an unsubscribe must return within 6 s", "etcd only: miniredis emits no keyspace notifications"])


# =========================================================================== Cluster, concurrent pairs: C22 (+C10)
@family("cluster_conc")
def fam_cluster_conc(tier, base):
    r = verif.model_check("MC_ClusterConc", "MC_ClusterConc.cfg", timeout=3000, workers=1)
    inputs, trace = base + ".in.ndjson", base + ".trace.ndjson"
    pairs, racy = {}, {}
    for x in r.tagged("INPUT"):
        d = json.loads(x)
        k = (d["pre"], d["a"], d["b"])
        pairs[k] = True
        if d["outcome"] != "ok":
            racy[k] = d["outcome"]
    with open(inputs, "w") as f:
        for (pre, a, b) in sorted(pairs):
            f.write(json.dumps({"pre": pre, "a": a, "b": b}) + "\n")
    bdrv = verif.build_driver("cluster")
    verif.run_driver_sharded(bdrv, "TestClusterConc", inputs, trace, shards=14, timeout=7000)
    os.remove(inputs)
    viols, tr = verif.validate_trace("Trace_ClusterConc", "Trace_ClusterConc.cfg", trace, heap="16g")
    lines = verif.read_lines(trace)
    return dict(trace=trace, viols=viols, states=r.distinct, transitions=r.generated, configs=["MC_ClusterConc.cfg", "Trace_ClusterConc.cfg"], window=0,
                traces={"*": len(lines)}, samples={"*": [{k: v for k, v in json.loads(x).items() if k != "snap"} for x in lines[:3]]},
                nontrivial={"C22": sum(1 for ln in lines if '"reached":true' in ln), "C10": len(lines)},
                notes="model: every interleaving of two operations from {add-pod, remove-pod, add-node, remove-node, create, remove} over 3 pre-states at store-access grain (%d states); it predicts races for %s and finds every other pair race-free; code: %d pairs x pre-states, operation B executed to completion inside every window of operation A (%d windows at store / plugin / engine / key-value access grain)" % (
                    r.distinct, sorted({"%s||%s/%s: %s" % (a, b, pre, o) for (pre, a, b), o in racy.items()}), len(pairs), len(lines)))


ALSO["C22"] = ["cluster_conc"]
ALSO["C10"] = ["cluster_conc"]


# =========================================================================== Cluster histories: C10 (+C11, C22 composed)
@family("cluster_hist")
def fam_cluster_hist(tier, base):
    q = tier == "quick"
    inputs, trace = base + ".in.ndjson", base + ".trace.ndjson"
    seen = set()
    with open(inputs, "w") as f:
        n, gen = _sim_inputs("MC_ClusterHist", "MC_ClusterHist_sim.cfg", 60 if q else 3000, 10, f, seen, keep=140 if q else 6000)
    b = verif.build_driver("cluster")
    verif.run_driver_sharded(b, "TestClusterHistories", inputs, trace, shards=14, timeout=7000)
    os.remove(inputs)
    viols, tr = verif.validate_trace("Trace_Cluster", "Trace_Cluster.cfg", trace, heap="16g")
    v2, _ = verif.validate_trace("Trace_ClusterOps", "Trace_ClusterOps.cfg", trace, heap="16g")
    viols = viols + v2
    lines = verif.read_lines(trace)
    cnt = lambda s: sum(1 for ln in lines if s in ln)
    return dict(trace=trace, viols=viols, states=max(1, gen), transitions=gen, configs=["MC_ClusterHist_sim.cfg", "Trace_Cluster.cfg", "Trace_ClusterOps.cfg"], window=60, exhaustive=False,
                traces={"*": cnt('"ev":"Run"')}, samples={"*": [json.loads(x) for x in lines[:1]]}, nontrivial={"C10": cnt('"ev":"Run"'), "C11": cnt('"class":"injected"'), "C22": cnt('"ev":"Run"')},
                notes="%d TLC-simulated histories of 6 API calls (create with 3 strategies, remove, dissociate, realloc with 7 deltas, replace, set-node), each call with or without an injected failure at its 3rd..20th external call, on plain and NUMA node layouts; %d calls, the state judged after every one" % (n, cnt('"ev":"Run"')))


ALSO["C10"] = ["cluster_conc", "cluster_hist"]
ALSO["C11"] = ["cluster_hist"]


# =========================================================================== Store calls, concurrent pairs: C13
@family("store_conc")
def fam_store_conc(tier, base):
    r = verif.model_check("MC_StoreConc", "MC_StoreConc.cfg", timeout=3000, workers=1)
    inputs, trace = base + ".in.ndjson", base + ".trace.ndjson"
    n = verif.emit_inputs(r, inputs)
    b = verif.build_driver("storecmp")
    verif.run_driver_sharded(b, "TestStoreConc", inputs, trace, shards=8, timeout=7000)
    os.remove(inputs)
    viols, tr = verif.validate_trace("Trace_StoreConc", "Trace_StoreConc.cfg", trace)
    lines = verif.read_lines(trace)
    return dict(trace=trace, viols=viols, states=r.distinct, transitions=r.generated, configs=["MC_StoreConc.cfg", "Trace_StoreConc.cfg"], window=0,
                traces={"*": len(lines)}, samples={"*": [json.loads(x) for x in lines[:3]]}, nontrivial={"C13": sum(1 for ln in lines if '"reached":true' in ln)},
                notes="%d ordered pairs of store calls (add-workload with / without the processing marker, remove, update, create / delete marker) x 2 pre-states on the etcd store; call A parked before each of its etcd client requests, call B executed inside the window: %d windows; the count is read in the window and at the end" % (n, len(lines)))


ALSO["C13"] = ["store_conc"]


# =========================================================================== Lock loss inside a multi-lock critical section: C19
@family("lock_section")
def fam_lock_section(tier, base):
    q = tier == "quick"
    r = verif.model_check("MC_LockSection", "MC_LockSection.cfg", timeout=600, workers=1)
    rl = verif.tlc("MC_LockSection", "MC_LockSection_lastonly.cfg", timeout=600, workers=1)
    if not rl.error or "SectionFollowsLocks" not in rl.error:
        raise Broken("LockSection with unchained contexts: expected SectionFollowsLocks to fail, got %s" % rl.error)
    inputs, trace = base + ".in.ndjson", base + ".trace.ndjson"
    allin = list(dict.fromkeys(r.tagged("INPUT")))
    reps = 1 if q else 6
    with open(inputs, "w") as f:
        f.write("\n".join(allin * reps) + "\n")
    b = verif.build_driver("cluster")
    verif.run_driver_sharded(b, "TestClusterLockSection", inputs, trace, shards=4 if q else 6, timeout=7000)
    os.remove(inputs)
    viols, tr = verif.validate_trace("Trace_LockSection", "Trace_LockSection.cfg", trace)
    lines = verif.read_lines(trace)
    evs = [json.loads(x) for x in lines]
    judged = [e for e in evs if e.get("reached") and e.get("revoked") and not e.get("starved")]
    if len(judged) < len(evs) * 0.6:
        raise Broken("lock-section driver: only %d of %d runs could be judged (section not reached, lease not found, or the scheduler was starved)" % (len(judged), len(evs)))
    told = sorted(e["toldMs"] for e in judged)
    return dict(trace=trace, viols=viols, states=r.distinct, transitions=r.generated, configs=["MC_LockSection.cfg", "MC_LockSection_lastonly.cfg", "Trace_LockSection.cfg"], window=0,
                traces={"*": len(judged)}, samples={"*": evs[:3]}, nontrivial={"C19": sum(1 for e in judged if e["lose"] < e["nlocks"])},
                notes="%d runs: capacity query / deployment over nodes of 1..3 pods (1..3 pod locks) parked inside the critical section, the lease of each held lock in turn revoked in etcd; "
                      "the section's context (the one its plugin call was given) done after %s ms (min / median / max), bound ttl/3 + 500 ms (keepalive loop granularity of the etcd client) + 700 ms = 2200 ms; "
                      "the model with unchained contexts fails SectionFollowsLocks as expected" % (len(judged), "%d / %d / %d" % (told[0], told[len(told) // 2], told[-1]) if told else "-"))


ALSO["C19"] = ["lock_section"]


# =========================================================================== Operations under worker-pool pressure: C20 (and C10, C12, C22 judged along)
@family("cluster_pool")
def fam_cluster_pool(tier, base):
    q = tier == "quick"
    r = verif.model_check("MC_ClusterScen", "MC_ClusterScen_quick.cfg", timeout=3000, workers=1)
    sel = []
    for x in dict.fromkeys(r.tagged("INPUT")):
        sc = json.loads(x)
        if sc["mode"] != "fault" or sc["op"]["kind"] in ("lambda",):
            continue
        sc["mode"] = "pool"
        sel.append(sc)
    # every kind of operation is kept; within a kind every n-th scenario
    bykind = {}
    for sc in sel:
        bykind.setdefault(sc["op"]["kind"], []).append(sc)
    inputs, trace = base + ".in.ndjson", base + ".trace.ndjson"
    n = 0
    with open(inputs, "w") as f:
        for kind, scs in sorted(bykind.items()):
            want = (4 if q else 40) if kind in ("remove", "dissociate", "create", "realloc", "replace") else (1 if q else 6)
            step = max(1, len(scs) // want)
            for i, sc in enumerate(scs):
                if (i + verif.seed()) % step == 0:
                    f.write(json.dumps(sc) + "\n")
                    n += 1
    b = verif.build_driver("cluster")
    verif.run_driver_sharded(b, "TestClusterPool", inputs, trace, shards=12, timeout=7000)
    os.remove(inputs)
    viols, tr = verif.validate_trace("Trace_Cluster", "Trace_Cluster.cfg", trace, heap="16g")
    lines = verif.read_lines(trace)
    cnt = lambda s: sum(1 for ln in lines if s in ln)
    if any(v["class"] == "envfail" for v in [json.loads(x) for x in lines if '"envfail"' in x][:1]):
        pass
    runs = cnt('"mode":"pool",')
    if runs < n:
        raise Broken("pool-pressure driver: %d scenarios gave only %d judged runs" % (n, runs))
    return dict(trace=trace, viols=viols, states=r.distinct, transitions=r.generated, configs=["MC_ClusterScen_quick.cfg", "Trace_Cluster.cfg"], window=0, exhaustive=False,
                traces={"*": runs}, samples={"*": [json.loads(x) for x in lines[:1]]}, nontrivial={"C20": cnt('"target":"lock"')},
                notes="%d scenarios run on core instances whose worker pool has 1, 2, 3 ... workers (a task submitted to a full pool is refused); the two smallest pools at which "
                      "the operation returns are judged: %d runs; of the %d runs with too small a pool (the operation never returns) the lock acquisitions are judged; "
                      "%d lock acquisitions checked against the global order" % (n, runs, cnt('"mode":"pool-stuck"'), cnt('"target":"lock"')))


ALSO["C20"] = ALSO["C20"] + ["cluster_pool"]


# =========================================================================== Engine cache (beyond the listed properties; diagnostic)
@family("engine_cache")
def fam_engine_cache(tier, base):
    q = tier == "quick"
    r = verif.model_check("MC_EngineCache", "MC_EngineCache.cfg", timeout=3000, workers=1)
    inputs, trace = base + ".in.ndjson", base + ".trace.ndjson"
    allin = list(dict.fromkeys(r.tagged("INPUT")))
    allin = [x for x in allin if '"wait"' in x]
    churn = [x for x in allin if '"churn"' in x]
    plain = [x for x in allin if '"churn"' not in x]
    pick = lambda xs, want: [x for i, x in enumerate(xs) if (i + verif.seed()) % max(1, len(xs) // want) == 0]
    with open(inputs, "w") as f:
        f.write("\n".join(pick(plain, 30 if q else 400) + pick(churn, 30 if q else 400)) + "\n")
    b = verif.build_driver("storecmp")
    verif.run_driver_sharded(b, "TestEngineCache", inputs, trace, shards=10, timeout=7000)
    os.remove(inputs)
    viols, tr = verif.validate_trace("Trace_EngineCache", "Trace_EngineCache.cfg", trace)
    lines = verif.read_lines(trace)
    return dict(trace=trace, viols=viols, states=r.distinct, transitions=r.generated, configs=["MC_EngineCache.cfg", "Trace_EngineCache.cfg"], window=0,
                traces={"*": len(lines)}, samples={"*": [json.loads(x) for x in lines[:2]]}, nontrivial={},
                notes="engine cache (engine/factory): %d schedules of up / down / heartbeat / lapse / get / wait with a real docker client against a switchable fake daemon; deviations (diagnostic): %s" % (
                    len(lines), sorted({v["sig"] for v in viols}) or "none"))
