SPECIFICATION Spec
CONSTANTS
  MaxOps = 6
  MaxWl = 4
  FaultKinds = {"fail", "cancel"}
  FaultAt = {0, 3, 5, 7, 9, 11, 13, 16, 20}
CONSTRAINT Emit
CHECK_DEADLOCK FALSE
