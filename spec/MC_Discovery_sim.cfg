SPECIFICATION Spec
CONSTANTS
  Addrs = {"a1", "a2", "a3"}
  Subs = {"s1", "s2", "s3"}
  Kind <- KindSim
  MaxOps = 8
CONSTRAINT Emit
CHECK_DEADLOCK FALSE
