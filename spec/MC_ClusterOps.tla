---------------------------- MODULE MC_ClusterOps ----------------------------
EXTENDS ClusterOps
AllKinds == {"remove", "removeforce", "dissociate", "realloc"}
=============================================================================
