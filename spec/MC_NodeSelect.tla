--------------------------- MODULE MC_NodeSelect ---------------------------
EXTENDS NodeSelect, Json, IOUtils
Emit == q = 0 => PrintT(<<"INPUT", ToJson(f)>>)
=============================================================================
