--------------------------- MODULE MC_EngineCache ---------------------------
EXTENDS EngineCache, Json, IOUtils
Emit == (Len(hist) = MaxOps) => PrintT(<<"INPUT", ToJson([ops |-> hist])>>)
=============================================================================
