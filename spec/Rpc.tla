-------------------------------- MODULE Rpc --------------------------------
(***************************************************************************)
(* The edges of the RPC layer: C35 authentication (auth/simple) and C36    *)
(* client-side transparent retry of watch streams (client/interceptor).    *)
(***************************************************************************)
EXTENDS Integers, Sequences, FiniteSets, TLC

(* ---- C35 ------------------------------------------------------------- *)
\* gRPC metadata keys are case-insensitive: the transport lower-cases them (explicit action of
\* the model: what the server receives is Wire(user)).  Table for the enumerated names.
Lower(u) == IF u = "Admin" THEN "admin" ELSE u
Wire(cliU, cliP) == [key |-> Lower(cliU), val |-> cliP]
\* the server must find the configured user under the transport's spelling and compare the password
Accept(srvU, srvP, cliU, cliP) == Lower(srvU) = Wire(cliU, cliP).key /\ srvP = Wire(cliU, cliP).val
C35ok(in, unary, stream, served) ==
    LET acc == Accept(in.srvU, in.srvP, in.cliU, in.cliP) IN
    /\ acc => (unary = "OK" /\ stream = "OK" /\ served.unary = 1 /\ served.stream = 1)
    /\ ~acc => (unary # "OK" /\ stream # "OK" /\ served.unary = 0 /\ served.stream = 0)

(* ---- C36 ------------------------------------------------------------- *)
\* A server script is a sequence of stream "lives" [msgs, end]; opening the k-th server-side
\* stream plays lives[k] (beyond the script the server fails at once).
\* The client plays life 1; whenever the current stream breaks (error OR end-of-stream) it
\* makes up to A reopen attempts (each opens the next server-side stream and re-sends the
\* request); an attempt succeeds when the new stream delivers a message.
MsgsOf(lives, k) == IF k <= Len(lives) THEN [j \in 1..lives[k].msgs |-> <<k, j>>] ELSE <<>>
RECURSIVE Play(_, _, _), Retry(_, _, _, _)
Play(lives, A, k) ==
    LET rest == Retry(lives, A, k + 1, 0) IN
    [delivered |-> MsgsOf(lives, k) \o rest.delivered, streams |-> rest.streams]
Retry(lives, A, j, t) ==
    IF t >= A THEN [delivered |-> <<>>, streams |-> j - 1]
    ELSE IF j <= Len(lives) /\ lives[j].msgs >= 1 THEN Play(lives, A, j)
    ELSE Retry(lives, A, j + 1, t + 1)
WatchRun(lives, A) == Play(lives, A, 1)
IsPrefix(s, t) == Len(s) <= Len(t) /\ \A i \in 1..Len(s) : s[i] = t[i]
Watch(m) == m \in {"wss", "watch"}
\* "up to the configured retry budget": the code allows Max retries after a first reopen
\* (Max+1 attempts per break); a reading with exactly Max attempts is accepted as well.
Budgets(max) == {max, max + 1}
C36ok(in, delivered, streams, requests, streamsAtCancel) ==
    /\ \A i \in 1..Len(requests) : requests[i] = requests[1]          \* original request re-sent
    /\ IF ~Watch(in.method)
       THEN streams = 1 /\ IsPrefix(delivered, MsgsOf(in.lives, 1))   \* never retried
                        /\ (in.cancelAt < 0 => delivered = MsgsOf(in.lives, 1))
       ELSE IF in.cancelAt < 0
            THEN \E A \in Budgets(in.max) : LET r == WatchRun(in.lives, A) IN
                     delivered = r.delivered /\ streams = r.streams
            ELSE \* cancelled: nothing new is opened on the server afterwards; what was delivered
                 \* is a prefix of the uncancelled run
                 /\ (streamsAtCancel >= 0 => streams = streamsAtCancel)
                 /\ \E A \in Budgets(in.max) : IsPrefix(delivered, WatchRun(in.lives, A).delivered)
=============================================================================
