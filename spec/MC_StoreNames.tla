--------------------------- MODULE MC_StoreNames ---------------------------
EXTENDS StoreNames, Json, IOUtils
\* names and their '/'-segments (TLC cannot index into strings, so the split is given)
SegTable == [x \in {"a", "b", "a_b", "a*", "a?", "[ab]", "a.b", "x", "y", "n1", "n2", "", "..", "."} |-> <<x>>]
            @@ ("a/b" :> <<"a", "b">>) @@ ("/a" :> <<"", "a">>) @@ ("b/x" :> <<"b", "x">>) @@ ("x/n1" :> <<"x", "n1">>) @@ ("n1/w" :> <<"n1", "w">>)
MCSegs(name) == SegTable[name]
Emit == q = 0 => PrintT(<<"INPUT", ToJson([ws |-> ws])>>)
=============================================================================
