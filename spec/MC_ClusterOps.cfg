SPECIFICATION Spec
CONSTANTS
  Kinds <- AllKinds
INVARIANTS UsageMatchesRecord FailureLeavesNoTrace SuccessIsComplete ContainerFollowsRecord
PROPERTY Terminates
CHECK_DEADLOCK FALSE
