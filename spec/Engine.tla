------------------------------- MODULE Engine -------------------------------
(***************************************************************************)
(* Translation of allocated resources into Docker container settings       *)
(* (engine/docker/helper.go makeResourceSetting, container.go create and   *)
(* VirtualizationUpdateResource), property C31.                            *)
(*                                                                         *)
(* Engine params p = [cpu100 (CPU limit x100), cores (BOOLEAN per core:    *)
(* the cpu_map's keys), numa (0 = none, k = NUMA node k-1), memMiB,        *)
(* remap].  Settings s = [quota, period, shares, cpuset (BOOLEAN per       *)
(* core), mems, memMiB, swapMiB]; memMiB = -1 encodes "unlimited".         *)
(***************************************************************************)
EXTENDS Integers, Sequences, FiniteSets, TLC

Period == 100000
NoCores(p) == \A c \in 1..Len(p.cores) : ~p.cores[c]
Bound(p) == ~NoCores(p) /\ ~p.remap
Frac(p) == p.cpu100 % 100
\* round(1024 * frac) - never a tie because 512*f = 50*x + 25 has no solution
ShareOf(p) == IF Frac(p) = 0 THEN 1024 ELSE (1024 * Frac(p) + 50) \div 100
Unlimited(q) == q \in {0, -1}

CpuOK(p, op, s) ==
    IF Bound(p)
    THEN /\ s.cpuset = p.cores                     \* pinned to exactly its cores
         /\ s.mems = p.numa                          \* and its NUMA node
         /\ s.quota = -1                             \* unrestricted quota
         /\ s.shares = ShareOf(p)                    \* shares proportional to the fractional core
    ELSE \* not bound (never was, or remapped onto the shared cores): quota = CPU limit.
         \* Which cores it may use is the resource plugin's business (C32), not judged here.
         /\ IF p.cpu100 = 0 THEN Unlimited(s.quota) ELSE s.quota = p.cpu100 * (Period \div 100)
         /\ s.period = Period
\* memory limit 0 = unlimited.  On create Docker reads 0 as "no limit"; on UPDATE Docker reads 0 as
\* "leave unchanged", so lifting a limit must send the maximum (-1 here).
MemOK(p, op, s) ==
    IF p.memMiB = 0 THEN s.memMiB = (IF op = "create" THEN 0 ELSE -1) /\ s.swapMiB = s.memMiB
    ELSE s.memMiB = p.memMiB /\ s.swapMiB = p.memMiB
C31ok(p, op, class, s) == class = "ok" /\ CpuOK(p, op, s) /\ MemOK(p, op, s)

=============================================================================
