------------------------------- MODULE Merge -------------------------------
(***************************************************************************)
(* Multi-plugin deploy-capacity aggregation (resource/cobalt/node.go:      *)
(* GetNodesDeployCapacity + mergeCapacity), property C09, and the manager- *)
(* level total of C07.                                                     *)
(*                                                                         *)
(* An answer of plugin p is ans[p] = [w |-> weight, nodes |-> <<a_1..a_N>>]*)
(* where a_n = [off |-> BOOLEAN, cap, u, r]; u and r are stored x4         *)
(* (dyadic), cap = -1 encodes unlimited.  Weighted averages are kept as    *)
(* exact fractions [num, den] so that TLC compares them without floats.    *)
(***************************************************************************)
EXTENDS Integers, Sequences, FiniteSets, TLC

INFCAP == -1
MinCap(a, b) == IF a = INFCAP THEN b ELSE IF b = INFCAP THEN a ELSE IF a < b THEN a ELSE b
SatAdd(a, b) == IF a = INFCAP \/ b = INFCAP THEN INFCAP ELSE a + b

Plugins(ans) == 1..Len(ans)
NodesOf(ans) == 1..Len(ans[1].nodes)

RECURSIVE SumOver(_, _)
SumOver(f, S) == IF S = {} THEN 0 ELSE LET x == CHOOSE x \in S : TRUE IN f[x] + SumOver(f, S \ {x})
RECURSIVE MinOver(_, _)
MinOver(f, S) == LET x == CHOOSE x \in S : TRUE IN
                 IF S = {x} THEN f[x] ELSE MinCap(f[x], MinOver(f, S \ {x}))

(* the order-free meaning (C09) *)
Offered(ans, n) == \A p \in Plugins(ans) : ans[p].nodes[n].off
Merged(ans) ==
    [n \in NodesOf(ans) |->
       IF ~Offered(ans, n) THEN [off |-> FALSE, cap |-> 0, unum |-> 0, rnum |-> 0, den |-> 1]
       ELSE [off |-> TRUE,
             cap |-> MinOver([p \in Plugins(ans) |-> ans[p].nodes[n].cap], Plugins(ans)),
             unum |-> SumOver([p \in Plugins(ans) |-> ans[p].nodes[n].u * ans[p].w], Plugins(ans)),
             rnum |-> SumOver([p \in Plugins(ans) |-> ans[p].nodes[n].r * ans[p].w], Plugins(ans)),
             den |-> SumOver([p \in Plugins(ans) |-> ans[p].w], Plugins(ans))]]
MergedTotal(ans) ==
    LET m == Merged(ans) IN
    LET RECURSIVE T(_)
        T(k) == IF k = 0 THEN 0 ELSE SatAdd(IF m[k].off THEN m[k].cap ELSE 0, T(k - 1))
    IN T(Len(ans[1].nodes))

(* the code's pairwise fold, in answer order `order` (a sequence of plugin indices). *)
(* First(a): the accumulator is seeded with the first answer weighted by its own     *)
(* weight (the unfixed code seeded it with the raw value - see DESIGN.md, C09).       *)
First(a) == [n \in 1..Len(a.nodes) |->
               IF a.nodes[n].off
               THEN [off |-> TRUE, cap |-> a.nodes[n].cap, unum |-> a.nodes[n].u * a.w, rnum |-> a.nodes[n].r * a.w, den |-> a.w]
               ELSE [off |-> FALSE, cap |-> 0, unum |-> 0, rnum |-> 0, den |-> 1]]
Step(acc, a) == [n \in 1..Len(a.nodes) |->
               IF acc[n].off /\ a.nodes[n].off
               THEN [off |-> TRUE, cap |-> MinCap(acc[n].cap, a.nodes[n].cap),
                     unum |-> acc[n].unum + a.nodes[n].u * a.w, rnum |-> acc[n].rnum + a.nodes[n].r * a.w,
                     den |-> acc[n].den + a.w]
               ELSE [off |-> FALSE, cap |-> 0, unum |-> 0, rnum |-> 0, den |-> 1]]
RECURSIVE FoldFrom(_, _, _, _)
FoldFrom(ans, order, k, acc) == IF k > Len(order) THEN acc ELSE FoldFrom(ans, order, k + 1, Step(acc, ans[order[k]]))
Fold(ans, order) == FoldFrom(ans, order, 2, First(ans[order[1]]))

Perms(S) == {f \in [1..Cardinality(S) -> S] : \A i, j \in 1..Cardinality(S) : i # j => f[i] # f[j]}
FoldOrderFree(ans) == \A o \in Perms(Plugins(ans)) : Fold(ans, o) = Merged(ans)

(* Judging an observed result: result[n] = [off, cap, u6, r6] with u6, r6 = value x 10^6 rounded. *)
\* observed float v (x1e6) equals num/(4*den) up to rounding
\* (integer arithmetic kept below 2^31: num <= 1200, v6 is clamped to +-10^9 by the driver)
FracEq(v6, num, den) == LET e == (num * 1000000) \div (4 * den) IN (v6 - e) \in (0 - 1)..1
C09ok(ans, result, total) ==
    LET m == Merged(ans) IN
    /\ Len(result) = Len(m)
    /\ \A n \in 1..Len(m) :
         /\ result[n].off = m[n].off
         /\ m[n].off => /\ result[n].cap = m[n].cap
                        /\ FracEq(result[n].u6, m[n].unum, m[n].den)
                        /\ FracEq(result[n].r6, m[n].rnum, m[n].den)
TotalOK(ans, total) == total = MergedTotal(ans)
=============================================================================
