----------------------------- MODULE StoreNames -----------------------------
(***************************************************************************)
(* C24: metadata queries are isolated per application, entrypoint, node.   *)
(* A scenario is a small set of workloads created under (app, entry, node) *)
(* names; the reference answers are defined on the RECORDS:                *)
(*   List(a, e, n)      = workloads whose names equal the non-empty filters *)
(*                        (empty app ignores entry and node, empty entry    *)
(*                        ignores node - store/*/workload.go)               *)
(*   DeployStatus(a, e) = node -> number of such workloads                  *)
(*   Parse(Make(app, entry, ident)) = <<app, entry, ident>>                 *)
(* The code answers these from path-joined key prefixes; KeySegs below is   *)
(* that key layout (names split at '/', '.' and '..' resolved as           *)
(* filepath.Join does), so TLC shows at design level WHICH accepted names   *)
(* collide (PathLike) - the trace check then tells a predicted collision    *)
(* from any other failure.                                                  *)
(***************************************************************************)
EXTENDS Integers, Sequences, FiniteSets, TLC
CONSTANTS AppNames, EntryNames, NodeNames, Segs(_)   \* Segs(name): the name split at '/'
VARIABLES ws, q
vars == <<ws, q>>

Triples == AppNames \X EntryNames \X NodeNames
W(t, id) == [id |-> id, app |-> t[1], entry |-> t[2], node |-> t[3]]

Match(w, a, e, n) == a = "" \/ (w.app = a /\ (e = "" \/ (w.entry = e /\ (n = "" \/ w.node = n))))
List(S, a, e, n) == {w.id : w \in {x \in S : Match(x, a, e, n)}}
Count(S, a, e, n) == Cardinality(List(S, a, e, n))

(* ---- the key layout the code uses (design-level model of the deviation) ---- *)
RECURSIVE Clean(_, _)
Clean(in, out) == IF in = <<>> THEN out
                  ELSE IF Head(in) = "." \/ Head(in) = "" THEN Clean(Tail(in), out)
                  ELSE IF Head(in) = ".." THEN Clean(Tail(in), IF out = <<>> THEN out ELSE SubSeq(out, 1, Len(out) - 1))
                  ELSE Clean(Tail(in), Append(out, Head(in)))
\* sg: name -> its '/'-segments
KeySegsF(sg, w) == Clean(<<"deploy">> \o sg[w.app] \o sg[w.entry] \o sg[w.node] \o <<w.id>>, <<>>)
PrefixSegsF(sg, a, e, n) == Clean(<<"deploy">> \o sg[a] \o sg[e] \o sg[n], <<>>)
IsPrefix(p, s) == Len(p) <= Len(s) /\ SubSeq(s, 1, Len(p)) = p
KeyMatchF(sg, S, a, e, n) == LET a2 == a  e2 == IF a = "" THEN "" ELSE e  n2 == IF a = "" \/ e = "" THEN "" ELSE n IN
                             {x \in S : IsPrefix(PrefixSegsF(sg, a2, e2, n2), KeySegsF(sg, x))}
KeyListF(sg, S, a, e, n) == {w.id : w \in KeyMatchF(sg, S, a, e, n)}
\* deploy status as the code computes it: the key segment before the id names the node
KeyNodeF(sg, w) == LET k == KeySegsF(sg, w) IN IF Len(k) >= 2 THEN k[Len(k) - 1] ELSE ""
KeyCountF(sg, S, a, e, node) == Cardinality({w \in KeyMatchF(sg, S, a, e, "") : KeyNodeF(sg, w) = node})
SegF(N) == [x \in N |-> Segs(x)]
KeyList(S, a, e, n) == KeyListF(SegF({a, e, n, ""} \cup UNION {{w.app, w.entry, w.node} : w \in S}), S, a, e, n)
PathLike(name) == Segs(name) # <<name>> \/ name \in {".", ".."}
Plain(S) == \A w \in S : ~PathLike(w.app) /\ ~PathLike(w.entry) /\ ~PathLike(w.node)
\* design theorem checked by TLC on every scenario: for plain names the key layout answers exactly
KeysExactForPlainNames == LET S == {ws[i] : i \in 1..Len(ws)} IN
    Plain(S) => \A a \in AppNames \cup {""}, e \in EntryNames \cup {""}, n \in NodeNames \cup {""} :
                    (~PathLike(a) /\ ~PathLike(e) /\ ~PathLike(n)) => KeyList(S, a, e, n) = List(S, a, e, n)

Init == /\ \E t1, t2 \in Triples : ws = <<W(t1, "w1"), W(t2, "w2")>>
        /\ q = 0
Next == q = 0 /\ q' = 1 /\ UNCHANGED ws
Spec == Init /\ [][Next]_vars
=============================================================================
