SPECIFICATION TraceSpec
CONSTANTS
  Kinds = {"remove"}
POSTCONDITION TraceAccepted
CHECK_DEADLOCK FALSE
