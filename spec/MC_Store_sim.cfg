SPECIFICATION Spec
CONSTANTS
  Pods = {"p1", "p2"}
  Nodes = {"n1", "n2", "n3"}
  Wls = {"w1", "w2", "w3", "w4"}
  Apps = {"a", "b"}
  Entries = {"x", "y"}
  Idents = {"i1"}
  MaxOps = 14
INVARIANT NodesInPods
CONSTRAINT Emit
CHECK_DEADLOCK FALSE
