--------------------------- MODULE Trace_Strategy ---------------------------
(* Validates events recorded from the real strategy.Deploy against the     *)
(* declarative meaning of C01-C03 in Strategy.tla.  One event per call:    *)
(*  {ev:"Deploy", s, infos:[{cap,count,u,r}], need, total, limit, class,    *)
(*   plan:[n|-1 per info], extra}    cap = -1 encodes unlimited.            *)
EXTENDS StrategyProps, TraceBase

VARIABLE l
tvars == <<l>>

FixCap(c) == IF c = -1 THEN INF ELSE c
Infos(e) == [i \in 1..Len(e.infos) |->
               [cap |-> FixCap(e.infos[i].cap), count |-> e.infos[i].count,
                u |-> e.infos[i].u, r |-> e.infos[i].r]]

Judge(e, n) ==
    LET infos == Infos(e)
        tot == FixCap(e.total)
        pre == tot = TotalOf(infos)          \* C02's stated precondition
    IN
    /\ Report(C01ok(e.s, infos, e.need, e.limit, e.class, e.plan, e.extra), "C01", n, e.s)
    /\ Report(pre => C02ok(e.s, infos, e.need, e.limit, e.class, e.plan), "C02", n, e.s)
    /\ Report(C03ok(e.s, infos, e.need, e.limit, e.class, e.plan), "C03", n, e.s)

TraceInit == l = 1
TraceNext == /\ l <= Len(Trace)
             /\ Trace[l].ev = "Deploy"
             /\ Judge(Trace[l], l)
             /\ l' = l + 1
TraceSpec == TraceInit /\ [][TraceNext]_tvars
TraceAccepted == IF TLCGet("stats").diameter - 1 = Len(Trace)
                 THEN PrintT(<<"ACCEPTED", Len(Trace)>>)
                 ELSE PrintT(<<"REJECTED", TLCGet("stats").diameter - 1, Len(Trace)>>)
=============================================================================
