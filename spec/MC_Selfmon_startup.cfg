SPECIFICATION Spec
CONSTANTS
  Nodes = {"n1", "n2"}
  ScanFirst = "n1"
  Focus = "off"
  MaxOps = 4
INVARIANT DownWhenSettled
CONSTRAINT Emit
CHECK_DEADLOCK FALSE
