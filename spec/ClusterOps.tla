----------------------------- MODULE ClusterOps -----------------------------
(***************************************************************************)
(* The single-workload operations of cluster/calcium as step machines, one *)
(* step per external call (store, resource plugin, engine, lock), written  *)
(* after the code: remove (remove.go), dissociate (dissociate.go), realloc *)
(* (realloc.go).  Each is a transaction (utils.Txn): condition, then,      *)
(* rollback; every call may fail once (an injected failure; the engine may *)
(* also refuse by itself: a non-forced removal of a running container).    *)
(*                                                                         *)
(* Abstract state of the one workload w on its node:                       *)
(*   applied   how much of w's resources the node's usage holds on top of  *)
(*             the other workloads: 1 = as recorded before the call,       *)
(*             0 = released, 2 = the re-allocated amount                   *)
(*   record    "old" | "new" | "none"   w's record in the store            *)
(*   cont      "old" | "new" | "none"   its container (settings old / new) *)
(*   todo      the calls still to be made (a program, see below)           *)
(*   out       "running" | "ok" | "err" what the operation reports         *)
(*                                                                         *)
(* A program is a sequence of steps [c: call, ok: effect, fail: name of    *)
(* the program that replaces the rest when the call fails].                *)
(* Design properties (checked by TLC on the machine itself): a reported    *)
(* failure leaves applied / record / cont as they were (C11), whatever     *)
(* the outcome the usage matches the record (C10).                         *)
(* Binding: the external calls a run of the real operation makes, with     *)
(* their outcomes, must be a behaviour of this machine, and the machine's  *)
(* final state must be the state read back (Trace_ClusterOps).             *)
(***************************************************************************)
EXTENDS Integers, Sequences, FiniteSets, TLC
CONSTANTS Kinds            \* subset of {"remove", "removeforce", "dissociate", "realloc"}

S(c, ok, fail) == [c |-> c, ok |-> ok, fail |-> fail]
\* the detached remap that follows (best effort, changes nothing of w): any of its calls may fail, then it just stops
Remap == <<S("store.GetNode", "none", "stop"), S("lock.Lock", "none", "stop"), S("store.ListNodeWorkloads", "none", "stop")>>
RECURSIVE Prog(_)
Prog(p) ==
    CASE p = "remove" \/ p = "removeforce" ->
            <<S("store.GetWorkloads", "none", "apierr"), S("store.GetNode", "none", "nodeerr"), S("lock.Lock", "none", "nodeerr"),
              S("store.GetWorkloads", "none", "wlerr"), S("lock.Lock", "none", "wlerr"),
              S("plugin.SetNodeResourceUsage", "release", "wlerr"), S("store.RemoveWorkload", "unrecord", "rm-rb1"),
              S("engine.Remove", "destroy", "rm-rb2"), S("", "report-ok", "")>> \o Remap
      [] p = "rm-rb1" -> <<S("plugin.SetNodeResourceUsage", "reapply", "stuck")>> \o Prog("wlerr")
      [] p = "rm-rb2" -> <<S("store.AddWorkload", "rerecord", "stuck"), S("plugin.SetNodeResourceUsage", "reapply", "stuck")>> \o Prog("wlerr")
      [] p = "dissociate" ->
            <<S("store.GetWorkloads", "none", "apierr"), S("store.GetNode", "none", "nodeerr"), S("lock.Lock", "none", "nodeerr"),
              S("store.GetWorkloads", "none", "wlerr"), S("lock.Lock", "none", "wlerr"),
              S("plugin.SetNodeResourceUsage", "release", "wlerr"), S("store.RemoveWorkload", "unrecord", "rm-rb1"),
              S("", "report-ok", "")>> \o Remap
      [] p = "realloc" ->
            <<S("store.GetWorkload", "none", "apierr"), S("store.GetNode", "none", "apierr"), S("lock.Lock", "none", "apierr"),
              S("store.GetWorkloads", "none", "apierr"), S("lock.Lock", "none", "apierr"),
              S("plugin.CalculateRealloc", "none", "apierr"), S("plugin.SetNodeResourceUsage", "apply-new", "apierr"),
              S("store.UpdateWorkload", "record-new", "ra-rb1"), S("engine.UpdateResource", "set-new", "ra-rb2"),
              S("", "report-ok", "")>> \o Remap
      [] p = "ra-rb1" -> <<S("plugin.SetNodeResourceUsage", "apply-old", "stuck")>> \o Prog("apierr")
      [] p = "ra-rb2" -> <<S("plugin.SetNodeResourceUsage", "apply-old", "stuck"), S("store.UpdateWorkload", "record-old", "stuck")>> \o Prog("apierr")
      [] p = "wlerr" -> <<S("", "report-err", "")>> \o Remap       \* the failure of this workload is reported, the node is still remapped
      [] p = "nodeerr" -> <<S("", "report-err", "")>>
      [] p = "apierr" -> <<S("", "report-err", "")>>
      [] p = "stop" -> <<>>
      [] p = "stuck" -> <<S("", "report-err", "")>>                 \* a second failure, inside the rollback: outside the single-failure model

\* the machine's state is one record m, so that the same step functions serve the model (actions below) and the trace
\* specification (Trace_ClusterOps applies them to the calls a real run made)
Start(k) == [kind |-> k, applied |-> 1, record |-> "old", cont |-> "old", todo |-> Prog(k), out |-> "running", faults |-> 0]
Effect(s, e) ==
    [s EXCEPT !.applied = (CASE e = "release" -> 0 [] e = "reapply" -> 1 [] e = "apply-new" -> 2 [] e = "apply-old" -> 1 [] OTHER -> @),
              !.record = (CASE e = "unrecord" -> "none" [] e = "rerecord" -> "old" [] e = "record-new" -> "new" [] e = "record-old" -> "old" [] OTHER -> @),
              !.cont = (CASE e = "destroy" -> "none" [] e = "set-new" -> "new" [] OTHER -> @),
              !.out = (CASE e = "report-ok" -> "ok" [] e = "report-err" -> (IF @ = "running" THEN "err" ELSE @) [] OTHER -> @)]
AtCall(s) == s.todo # <<>> /\ Head(s.todo).c # ""
AtReport(s) == s.todo # <<>> /\ Head(s.todo).c = ""
\* internal step: the operation reports its result
DoReport(s) == [Effect(s, Head(s.todo).ok) EXCEPT !.todo = Tail(s.todo)]
\* an external call that succeeds
DoCallOk(s) == [Effect(s, Head(s.todo).ok) EXCEPT !.todo = Tail(s.todo)]
\* an external call that fails (nothing of it is applied): the rest of the program is replaced
DoCallFail(s) == [s EXCEPT !.todo = Prog(Head(s.todo).fail), !.faults = @ + 1]
\* a running container is not removed without force: the engine's own refusal is the one failure of that run
Natural(s) == s.kind = "remove" /\ AtCall(s) /\ Head(s.todo).c = "engine.Remove"

VARIABLES m, hist
vars == <<m, hist>>
Init == m \in {Start(k) : k \in Kinds} /\ hist = <<>>
Reports == AtReport(m) /\ m' = DoReport(m) /\ UNCHANGED hist
CallOk == AtCall(m) /\ ~Natural(m) /\ m' = DoCallOk(m) /\ hist' = Append(hist, [c |-> Head(m.todo).c, ok |-> TRUE])
CallFail == AtCall(m) /\ m.faults = 0 /\ m' = DoCallFail(m) /\ hist' = Append(hist, [c |-> Head(m.todo).c, ok |-> FALSE])
Next == Reports \/ CallOk \/ CallFail
Spec == Init /\ [][Next]_vars /\ WF_vars(Next)

Done == m.todo = <<>>
\* C10 (for w): when the operation is over the usage holds exactly what the record says
UsageMatchesRecord == Done => (m.applied = CASE m.record = "none" -> 0 [] m.record = "old" -> 1 [] m.record = "new" -> 2)
\* C11: a reported failure left nothing behind
FailureLeavesNoTrace == (Done /\ m.out = "err") => (m.applied = 1 /\ m.record = "old" /\ m.cont = "old")
\* a reported success did what it says
SuccessIsComplete == (Done /\ m.out = "ok") =>
    CASE m.kind \in {"remove", "removeforce"} -> (m.applied = 0 /\ m.record = "none" /\ m.cont = "none")
      [] m.kind = "dissociate" -> (m.applied = 0 /\ m.record = "none" /\ m.cont = "old")
      [] m.kind = "realloc" -> (m.applied = 2 /\ m.record = "new" /\ m.cont = "new")
\* the container follows the record (no recorded workload without a container and vice versa), except after dissociate
ContainerFollowsRecord == (Done /\ m.kind # "dissociate") => ((m.record = "none") <=> (m.cont = "none"))
Terminates == <>Done
=============================================================================
