SPECIFICATION Spec
CONSTRAINT Emit
CHECK_DEADLOCK FALSE
