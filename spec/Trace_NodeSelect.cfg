SPECIFICATION TraceSpec
CONSTANTS
  IncludeNames = {}
  MaxIncludes = 0
POSTCONDITION TraceAccepted
CHECK_DEADLOCK FALSE
