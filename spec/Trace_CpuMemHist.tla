-------------------------- MODULE Trace_CpuMemHist --------------------------
(* Validates histories recorded from cobalt.Manager + cpumem against        *)
(* CpuMemHist.  State reconstructed from the logged effects:                *)
(*   node      - the node of the current run (HistStart)                    *)
(*   undo      - usage observed before the last successful alloc/realloc    *)
(*   cur       - usage observed after the previous event                    *)
EXTENDS CpuMemHist, TraceBase

VARIABLES l, node, cur, undo
tvars == <<l, node, cur, undo>>

NoNode == [B |-> 0]
Usage0(n) == [used |-> ZeroSeq(Len(n.cap)), memUsed |-> 0, numaMemUsed |-> ZeroSeq(Len(n.numaMem)), cpu1000 |-> 0, extra |-> 0]

OkOp(e, op) == e.op = op /\ e.class = "ok"

JudgeOp(e, n) ==
    /\ Report(UsageIsSum(node, e.usage, e.live) /\ e.diffs = 0, "C08", n, "sum/" \o e.op \o "/" \o e.kind)
    /\ Report((OkOp(e, "rbAlloc") \/ OkOp(e, "rbRealloc")) => SameUsage(e.usage, undo), "C08", n, "rollback/" \o e.op)
    /\ Report(e.class \notin {"ok", "skip"} => SameUsage(e.usage, cur), "C08", n, "failed-op-changed-usage/" \o e.op)
    /\ Report((OkOp(e, "release") /\ Has(e, "retBefore")) => (SameUsage(e.retBefore, cur) /\ SameUsage(e.retAfter, e.usage)), "C08", n,
              "reported-before-or-after-differs-from-the-usage/" \o e.op)
    /\ Report(NoOvercommit(node, e.usage), "C04", n, "hist/" \o e.op)
    /\ Report(OkOp(e, "remap") => RemapOK(node, e.usage, e.live, e.remap), "C32", n, "remap")
    /\ Report((OkOp(e, "realloc") /\ e.kind \in {"keep", "mem+", "mem-"}) => KeepBindOK(node, cur, e.before, e.after), "C33", n,
              IF e.before.numa > 0 THEN "numa" ELSE IF \E c \in 1..Len(node.numa) : node.numa[c] > 0 THEN "cross-numa" ELSE "plain")
    /\ Report(OkOp(e, "realloc") => ReallocExact(node, e.after), "C05", n, "realloc/" \o e.kind)
    /\ Report(Returned(e.class), "C06", n, "hist")

TraceInit == l = 1 /\ node = NoNode /\ cur = NoNode /\ undo = NoNode
TraceNext ==
    /\ l <= Len(Trace)
    /\ LET e == Trace[l] IN
       CASE e.ev = "HistStart" -> node' = e.node /\ cur' = Usage0(e.node) /\ undo' = Usage0(e.node)
         [] e.ev = "HistOp" ->
              /\ JudgeOp(e, l)
              /\ node' = node
              /\ cur' = e.usage
              /\ undo' = IF (OkOp(e, "alloc") \/ OkOp(e, "realloc")) THEN cur ELSE undo
         [] e.ev = "FixCase" ->
              /\ Report(FixOK(e.node, e), "C15", l, "fix")
              /\ UNCHANGED <<node, cur, undo>>
         [] e.ev = "Crash" -> Report(FALSE, "C06", l, e.kind) /\ UNCHANGED <<node, cur, undo>>
         [] e.ev = "BadInput" -> UNCHANGED <<node, cur, undo>>
    /\ l' = l + 1
TraceSpec == TraceInit /\ [][TraceNext]_tvars
TraceAccepted == IF TLCGet("stats").diameter - 1 = Len(Trace)
                 THEN PrintT(<<"ACCEPTED", Len(Trace)>>)
                 ELSE PrintT(<<"REJECTED", TLCGet("stats").diameter - 1, Len(Trace)>>)
=============================================================================
