SPECIFICATION Spec
CONSTANTS
  TTLs = {4, 8}
  Ticks = {2, 3, 7}
  MaxOps = 10
  MaxTime = 16
INVARIANT TypeOK
CONSTRAINT Emit
CHECK_DEADLOCK FALSE
