----------------------------- MODULE Trace_Wal -----------------------------
(* Validates histories recorded from a real wal.Hydro on a bbolt file.      *)
(* Events: Start; Op{op,type,tag,class,n}; Examined{tag,ans,type} (one per  *)
(* event the recovery hands to a handler's Decode); Called{what,tag};       *)
(* OpFailed; Scan{ids:[{id,type,tag}]} = the key set read from a copy of    *)
(* the file after the operation.  The abstract store is rebuilt from the    *)
(* scans; every operation's effect on it is judged at the next Scan.        *)
EXTENDS Integers, Sequences, FiniteSets, TLC, TraceBase
VARIABLES l, store, maxId, pend, examined, calls, failed
tvars == <<l, store, maxId, pend, examined, calls, failed>>

Ids(s) == {s[i].id : i \in 1..Len(s)}
Tags(s) == {s[i].tag : i \in 1..Len(s)}
EntryOf(s, tag) == s[CHOOSE i \in 1..Len(s) : s[i].tag = tag]
Sorted(s) == \A i, j \in 1..Len(s) : i < j => s[i].id < s[j].id
NoOp == [op |-> "none", type |-> "", tag |-> "", class |-> "ok", n |-> 0]
MaxOf(S, d) == IF S = {} THEN d ELSE CHOOSE x \in S : \A y \in S : y <= x

AnsOf(tag) == examined[CHOOSE i \in 1..Len(examined) : examined[i].tag = tag].ans
ExaminedTags == {examined[i].tag : i \in 1..Len(examined)}
CountCalls(what, tag) == Cardinality({i \in 1..Len(calls) : calls[i].what = what /\ calls[i].tag = tag})

JudgeScan(new, n) ==
    LET oldT == Tags(store)  newT == Tags(new) IN
    /\ Report(Sorted(new), "C16", n, "scan-order")
    /\ CASE pend.op = "log" ->
              /\ Report(~failed, "C16", n, "log-failed")
              /\ Report(newT = oldT \cup {pend.tag}, "C16", n, "log-effect")
              /\ Report((pend.tag \in newT) => (EntryOf(new, pend.tag).id > maxId /\ EntryOf(new, pend.tag).type = pend.type),
                        "C16", n, "id-reused-or-not-increasing")
              /\ Report(\A t \in oldT \cap newT : EntryOf(new, t).id = EntryOf(store, t).id, "C16", n, "log-changed-other-event")
         [] pend.op = "conclog" ->
              /\ Report(~failed, "C16", n, "log-failed")
              /\ Report(oldT \subseteq newT /\ Cardinality(newT \ oldT) = pend.n, "C16", n, "concurrent-log-lost-event")
              /\ Report(\A t \in newT \ oldT : EntryOf(new, t).id > maxId, "C16", n, "id-reused-or-not-increasing")
              /\ Report(Cardinality(Ids(new)) = Len(new), "C16", n, "duplicate-id")
         [] pend.op = "commit" /\ pend.class = "ok" ->
              /\ Report(~failed, "C16", n, "commit-failed")
              /\ Report(newT = oldT \ {pend.tag}, "C16", n, "commit-effect")
         [] pend.op = "recover" ->
              \* handlers only for logged-and-uncommitted events, in logging order, at most once
              /\ Report(ExaminedTags \subseteq oldT, "C16", n, "handled-unknown-event")
              /\ Report(\A i, j \in 1..Len(examined) :
                           (i < j /\ examined[i].tag \in oldT /\ examined[j].tag \in oldT) =>
                              EntryOf(store, examined[i].tag).id < EntryOf(store, examined[j].tag).id,
                        "C16", n, "handled-out-of-order-or-twice")
              /\ Report(\A t \in oldT : (EntryOf(store, t).type # "tU") => (t \in ExaminedTags), "C16", n, "uncommitted-event-not-replayed")
              /\ Report(\A t \in oldT : (EntryOf(store, t).type = "tU") => (t \notin ExaminedTags), "C16", n, "unknown-type-handled")
              /\ Report(\A t \in ExaminedTags : /\ CountCalls("check", t) = (IF AnsOf(t) = "decodeErr" THEN 0 ELSE 1)
                                                /\ CountCalls("handle", t) <= 1
                                                /\ (AnsOf(t) = "ok") => (CountCalls("handle", t) = 1)
                                                /\ (AnsOf(t) \in {"notNeeded", "decodeErr"}) => (CountCalls("handle", t) = 0),
                        "C16", n, "handler-call-count")
              \* removed exactly when the handler succeeded or declared it unnecessary
              /\ Report(newT = {t \in oldT : ~(t \in ExaminedTags /\ AnsOf(t) \in {"ok", "notNeeded"})}, "C16", n, "recover-removal")
         [] OTHER -> Report(newT = oldT, "C16", n, "store-changed-by-" \o pend.op)
    /\ Report(\A t \in oldT \cap newT : EntryOf(new, t).id = EntryOf(store, t).id, "C16", n, "event-id-changed")

TraceInit == l = 1 /\ store = <<>> /\ maxId = 0 /\ pend = NoOp /\ examined = <<>> /\ calls = <<>> /\ failed = FALSE
TraceNext ==
    /\ l <= Len(Trace)
    /\ LET e == Trace[l] IN
       CASE e.ev = "Start" -> store' = <<>> /\ maxId' = 0 /\ pend' = NoOp /\ examined' = <<>> /\ calls' = <<>> /\ failed' = FALSE
         [] e.ev = "Op" -> pend' = e /\ examined' = <<>> /\ calls' = <<>> /\ failed' = FALSE /\ UNCHANGED <<store, maxId>>
         [] e.ev = "OpFailed" -> failed' = TRUE /\ UNCHANGED <<store, maxId, pend, examined, calls>>
         [] e.ev = "Examined" -> examined' = Append(examined, e) /\ UNCHANGED <<store, maxId, pend, calls, failed>>
         [] e.ev = "Called" -> calls' = Append(calls, e) /\ UNCHANGED <<store, maxId, pend, examined, failed>>
         [] e.ev = "Scan" ->
              /\ JudgeScan(e.ids, l)
              /\ store' = e.ids
              /\ maxId' = MaxOf(Ids(e.ids) \cup {maxId}, maxId)
              /\ pend' = NoOp /\ examined' = <<>> /\ calls' = <<>> /\ failed' = FALSE
    /\ l' = l + 1
TraceSpec == TraceInit /\ [][TraceNext]_tvars
TraceAccepted == IF TLCGet("stats").diameter - 1 = Len(Trace)
                 THEN PrintT(<<"ACCEPTED", Len(Trace)>>)
                 ELSE PrintT(<<"REJECTED", TLCGet("stats").diameter - 1, Len(Trace)>>)
=============================================================================
