-------------------------- MODULE Trace_LockSection --------------------------
(* Judges the lock-section driver: every run in which the section was reached  *)
(* with the expected number of locks and a lease was revoked must show the     *)
(* section's context done within one keepalive interval (ttl/3) plus the same  *)
(* scheduling allowance the lock family uses.                                  *)
EXTENDS Integers, Sequences, TLC, TraceBase
VARIABLES l
\* the etcd client sends keepalives from a loop that wakes every 500 ms: they are ttl/3 .. ttl/3 + 500 ms apart
Slack == 500 + 700
TraceInit == l = 1
TraceNext ==
    /\ l <= Len(Trace)
    /\ LET e == Trace[l] IN
       IF e.starved \/ ~e.reached \/ ~Has(e, "revoked") \/ ~e.revoked THEN TRUE
       ELSE /\ Report(Len(e.held) = e.nlocks, "REF", l, "section-holds-other-number-of-locks")
            /\ Report(e.liveBefore, "REF", l, "section-context-done-before-any-loss")
            /\ Report(e.toldMs >= 0 /\ e.toldMs <= e.ttlMs \div 3 + Slack, "C19", l,
                      "section-not-told-of-lost-lock/" \o e.op \o "/" \o (IF e.lose = e.nlocks THEN "last-lock" ELSE "earlier-lock"))
    /\ l' = l + 1
TraceSpec == TraceInit /\ [][TraceNext]_l
TraceAccepted == IF TLCGet("stats").diameter - 1 = Len(Trace)
                 THEN PrintT(<<"ACCEPTED", Len(Trace)>>)
                 ELSE PrintT(<<"REJECTED", TLCGet("stats").diameter - 1, Len(Trace)>>)
=============================================================================
