----------------------------- MODULE ClusterConc -----------------------------
(***************************************************************************)
(* C22 under concurrency: two cluster operations on overlapping names,     *)
(* each a step machine with one step per store / plugin / engine access    *)
(* (the store's own check-then-act pairs are separate steps: AddNode =     *)
(* read pod, then create the node keys; RemovePod = list nodes, then       *)
(* delete the pod key), with the pod lock where the code takes it.         *)
(*   pods, nodes (name -> pod), res (nodes with a resource record),        *)
(*   wls (workload -> node), lock (pod -> holder or "")                    *)
(*   pc[o], loc[o]  program counter and locals of operation o in {A, B}    *)
(* Invariants at quiescence (both operations returned): Referential.       *)
(* TLC explores every interleaving; the pairs for which Referential fails  *)
(* are the design-level races the conformance driver then aims at.         *)
(***************************************************************************)
EXTENDS Integers, Sequences, FiniteSets, TLC
VARIABLES pods, nodes, res, wls, lock, pc, loc, pair
vars == <<pods, nodes, res, wls, lock, pc, loc, pair>>
Procs == {"A", "B"}
Op(o) == pair[o]

Put(f, k, v) == [x \in DOMAIN f \cup {k} |-> IF x = k THEN v ELSE f[x]]
Drop(f, k) == [x \in DOMAIN f \ {k} |-> f[x]]
NodesOf(p) == {n \in DOMAIN nodes : nodes[n] = p}
Go(o, l) == pc' = [pc EXCEPT ![o] = l]
Keep(o) == loc' = loc
SetLoc(o, v) == loc' = [loc EXCEPT ![o] = v]

(* ---- one step of operation o ---- *)
Step(o) ==
  LET k == Op(o).kind  p == Op(o).pod  n == Op(o).node  w == Op(o).wl IN
  CASE k = "addpod" /\ pc[o] = "start" ->
         /\ pods' = pods \cup {p} /\ Go(o, "done") /\ Keep(o) /\ UNCHANGED <<nodes, res, wls, lock>>
    (* remove-pod: calcium lists the pod's nodes to know which pod locks to take (none for an empty pod), *)
    (* the store lists them again and deletes the pod key                                               *)
    [] k = "removepod" /\ pc[o] = "start" ->
         /\ SetLoc(o, IF NodesOf(p) = {} THEN "nolock" ELSE "lock") /\ Go(o, "lock") /\ UNCHANGED <<pods, nodes, res, wls, lock>>
    [] k = "removepod" /\ pc[o] = "lock" ->
         IF loc[o] = "nolock" THEN Go(o, "check") /\ Keep(o) /\ UNCHANGED <<pods, nodes, res, wls, lock>>
         ELSE lock[p] = "" /\ lock' = [lock EXCEPT ![p] = o] /\ Go(o, "check") /\ Keep(o) /\ UNCHANGED <<pods, nodes, res, wls>>
    [] k = "removepod" /\ pc[o] = "check" ->
         /\ SetLoc(o, IF NodesOf(p) = {} THEN loc[o] \o "+empty" ELSE loc[o] \o "+has")
         /\ Go(o, "delete") /\ UNCHANGED <<pods, nodes, res, wls, lock>>
    [] k = "removepod" /\ pc[o] = "delete" ->
         /\ pods' = (IF loc[o] \in {"nolock+empty", "lock+empty"} THEN pods \ {p} ELSE pods)
         /\ lock' = [lock EXCEPT ![p] = IF @ = o THEN "" ELSE @]
         /\ Go(o, "done") /\ Keep(o) /\ UNCHANGED <<nodes, res, wls>>
    (* add-node: plugin record first (refused if it exists), then the store: read the pod, create the node keys; no lock *)
    [] k = "addnode" /\ pc[o] = "start" ->
         IF n \in res THEN Go(o, "done") /\ Keep(o) /\ UNCHANGED <<pods, nodes, res, wls, lock>>
         ELSE res' = res \cup {n} /\ Go(o, "getpod") /\ Keep(o) /\ UNCHANGED <<pods, nodes, wls, lock>>
    [] k = "addnode" /\ pc[o] = "getpod" ->
         /\ Go(o, IF p \in pods THEN "create" ELSE "rollback") /\ Keep(o) /\ UNCHANGED <<pods, nodes, res, wls, lock>>
    [] k = "addnode" /\ pc[o] = "create" ->
         IF n \in DOMAIN nodes THEN Go(o, "rollback") /\ Keep(o) /\ UNCHANGED <<pods, nodes, res, wls, lock>>
         ELSE nodes' = Put(nodes, n, p) /\ Go(o, "done") /\ Keep(o) /\ UNCHANGED <<pods, res, wls, lock>>
    [] k = "addnode" /\ pc[o] = "rollback" ->
         /\ res' = res \ {n} /\ Go(o, "done") /\ Keep(o) /\ UNCHANGED <<pods, nodes, wls, lock>>
    (* remove-node: under the pod lock: must be empty; store keys, then plugin record *)
    [] k = "removenode" /\ pc[o] = "start" ->
         IF n \notin DOMAIN nodes THEN Go(o, "done") /\ Keep(o) /\ UNCHANGED <<pods, nodes, res, wls, lock>>
         ELSE SetLoc(o, nodes[n]) /\ Go(o, "lock") /\ UNCHANGED <<pods, nodes, res, wls, lock>>
    [] k = "removenode" /\ pc[o] = "lock" ->
         /\ lock[loc[o]] = "" /\ lock' = [lock EXCEPT ![loc[o]] = o] /\ Go(o, "check") /\ Keep(o) /\ UNCHANGED <<pods, nodes, res, wls>>
    [] k = "removenode" /\ pc[o] = "check" ->
         /\ Go(o, IF {x \in DOMAIN wls : wls[x] = n} = {} THEN "delnode" ELSE "unlock") /\ Keep(o) /\ UNCHANGED <<pods, nodes, res, wls, lock>>
    [] k = "removenode" /\ pc[o] = "delnode" ->
         /\ nodes' = (IF n \in DOMAIN nodes THEN Drop(nodes, n) ELSE nodes) /\ Go(o, "delres") /\ Keep(o) /\ UNCHANGED <<pods, res, wls, lock>>
    [] k = "removenode" /\ pc[o] = "delres" ->
         /\ res' = res \ {n} /\ Go(o, "unlock") /\ Keep(o) /\ UNCHANGED <<pods, nodes, wls, lock>>
    [] k = "removenode" /\ pc[o] = "unlock" ->
         /\ lock' = [lock EXCEPT ![loc[o]] = ""] /\ Go(o, "done") /\ Keep(o) /\ UNCHANGED <<pods, nodes, res, wls>>
    (* create one instance on node n of pod p: allocation under the pod lock, the record is written after the lock is released *)
    [] k = "create" /\ pc[o] = "start" ->
         IF n \notin NodesOf(p) THEN Go(o, "done") /\ Keep(o) /\ UNCHANGED <<pods, nodes, res, wls, lock>>
         ELSE lock[p] = "" /\ lock' = [lock EXCEPT ![p] = o] /\ Go(o, "alloc") /\ Keep(o) /\ UNCHANGED <<pods, nodes, res, wls>>
    [] k = "create" /\ pc[o] = "alloc" ->
         /\ SetLoc(o, IF n \in res THEN "allocated" ELSE "refused") /\ lock' = [lock EXCEPT ![p] = ""]
         /\ Go(o, IF n \in res THEN "getnode" ELSE "done") /\ UNCHANGED <<pods, nodes, res, wls>>
    [] k = "create" /\ pc[o] = "getnode" ->
         /\ Go(o, IF n \in DOMAIN nodes THEN "record" ELSE "done") /\ Keep(o) /\ UNCHANGED <<pods, nodes, res, wls, lock>>
    [] k = "create" /\ pc[o] = "record" ->
         /\ wls' = Put(wls, w, n) /\ Go(o, "done") /\ Keep(o) /\ UNCHANGED <<pods, nodes, res, lock>>
    (* remove workload w: under the pod lock of its node *)
    [] k = "remove" /\ pc[o] = "start" ->
         IF w \notin DOMAIN wls \/ wls[w] \notin DOMAIN nodes THEN Go(o, "done") /\ Keep(o) /\ UNCHANGED <<pods, nodes, res, wls, lock>>
         ELSE SetLoc(o, nodes[wls[w]]) /\ Go(o, "lock") /\ UNCHANGED <<pods, nodes, res, wls, lock>>
    [] k = "remove" /\ pc[o] = "lock" ->
         /\ lock[loc[o]] = "" /\ lock' = [lock EXCEPT ![loc[o]] = o] /\ Go(o, "del") /\ Keep(o) /\ UNCHANGED <<pods, nodes, res, wls>>
    [] k = "remove" /\ pc[o] = "del" ->
         /\ wls' = (IF w \in DOMAIN wls THEN Drop(wls, w) ELSE wls) /\ lock' = [lock EXCEPT ![loc[o]] = ""]
         /\ Go(o, "done") /\ Keep(o) /\ UNCHANGED <<pods, nodes, res>>

Kinds == {"addpod", "removepod", "addnode", "removenode", "create", "remove"}
\* the scenario: pod p1 exists; in "with-node" pre-states node n1 (with its resource record) and possibly workload w1 exist
PreStates == {"empty-pod", "with-node", "with-workload"}
MkOp(k) == [kind |-> k, pod |-> "p1", node |-> "n1", wl |-> IF k = "create" THEN "w2" ELSE "w1"]
Init == \E pre \in PreStates, ka \in Kinds, kb \in Kinds :
          /\ pair = [A |-> MkOp(ka), B |-> MkOp(kb), pre |-> pre]
          /\ pods = {"p1"}
          /\ nodes = (IF pre = "empty-pod" THEN <<>> ELSE [x \in {"n1"} |-> "p1"])
          /\ res = (IF pre = "empty-pod" THEN {} ELSE {"n1"})
          /\ wls = (IF pre = "with-workload" THEN [x \in {"w1"} |-> "n1"] ELSE <<>>)
          /\ lock = [x \in {"p1"} |-> ""] /\ pc = [o \in Procs |-> "start"] /\ loc = [o \in Procs |-> ""]
Next == \E o \in Procs : pc[o] # "done" /\ Step(o) /\ UNCHANGED pair
Spec == Init /\ [][Next]_vars

Quiescent == \A o \in Procs : pc[o] = "done"
RefOK ==
    /\ \A n \in DOMAIN nodes : nodes[n] \in pods            \* a pod that still has nodes has not been removed
    /\ DOMAIN nodes \subseteq res /\ res \subseteq DOMAIN nodes  \* node <-> resource record
    /\ \A w \in DOMAIN wls : wls[w] \in DOMAIN nodes        \* every workload belongs to a recorded node
Referential == Quiescent => RefOK
Which == IF ~(\A n \in DOMAIN nodes : nodes[n] \in pods) THEN "node-in-removed-pod"
         ELSE IF ~(DOMAIN nodes \subseteq res) THEN "node-without-resource-record"
         ELSE IF ~(res \subseteq DOMAIN nodes) THEN "resource-record-without-node"
         ELSE IF ~(\A w \in DOMAIN wls : wls[w] \in DOMAIN nodes) THEN "workload-on-unrecorded-node" ELSE "ok"
=============================================================================
