----------------------------- MODULE ClusterConc -----------------------------
(***************************************************************************)
(* C22 under concurrency: two cluster operations on overlapping names,     *)
(* each a step machine with one step per store / plugin / engine access    *)
(* (the store's own check-then-act pairs are separate steps: AddNode =     *)
(* read pod, then create the node keys; RemovePod = list nodes, then       *)
(* delete the pod key), with the pod lock where the code takes it.         *)
(*   pods, nodes (name -> pod), res (nodes with a resource record),        *)
(*   wls (workload -> node), lock (pod -> holder or "")                    *)
(*   pc[o], loc[o]  program counter and locals of operation o in {A, B}    *)
(* Invariants at quiescence (both operations returned): Referential.       *)
(* TLC explores every interleaving; the pairs for which Referential fails  *)
(* are the design-level races the conformance driver then aims at.         *)
(***************************************************************************)
EXTENDS Integers, Sequences, FiniteSets, TLC
VARIABLES pods, nodes, res, wls, lock, pc, loc, pair, use, size
vars == <<pods, nodes, res, wls, lock, pc, loc, pair, use, size>>
Cap == 4    \* memory capacity of the node; a pre-deployed workload and a new one take 2 each, a realloc adds 1
Procs == {"A", "B"}
Op(o) == pair[o]

Put(f, k, v) == [x \in DOMAIN f \cup {k} |-> IF x = k THEN v ELSE f[x]]
Drop(f, k) == [x \in DOMAIN f \ {k} |-> f[x]]
NodesOf(p) == {n \in DOMAIN nodes : nodes[n] = p}
Go(o, l) == pc' = [pc EXCEPT ![o] = l]
Keep(o) == loc' = loc
SetLoc(o, v) == loc' = [loc EXCEPT ![o] = v]

(* ---- one step of operation o (Base: everything but the usage accounting) ---- *)
Base(o) ==
  LET k == Op(o).kind  p == Op(o).pod  n == Op(o).node  w == Op(o).wl IN
  CASE k = "addpod" /\ pc[o] = "start" ->
         /\ pods' = pods \cup {p} /\ Go(o, "done") /\ Keep(o) /\ UNCHANGED <<nodes, res, wls, lock>>
    (* remove-pod: calcium lists the pod's nodes to know which pod locks to take (none for an empty pod), *)
    (* the store lists them again and deletes the pod key                                               *)
    [] k = "removepod" /\ pc[o] = "start" ->
         /\ SetLoc(o, IF NodesOf(p) = {} THEN "nolock" ELSE "lock") /\ Go(o, "lock") /\ UNCHANGED <<pods, nodes, res, wls, lock>>
    [] k = "removepod" /\ pc[o] = "lock" ->
         IF loc[o] = "nolock" THEN Go(o, "check") /\ Keep(o) /\ UNCHANGED <<pods, nodes, res, wls, lock>>
         ELSE lock[p] = "" /\ lock' = [lock EXCEPT ![p] = o] /\ Go(o, "check") /\ Keep(o) /\ UNCHANGED <<pods, nodes, res, wls>>
    [] k = "removepod" /\ pc[o] = "check" ->
         /\ SetLoc(o, IF NodesOf(p) = {} THEN loc[o] \o "+empty" ELSE loc[o] \o "+has")
         /\ Go(o, "delete") /\ UNCHANGED <<pods, nodes, res, wls, lock>>
    [] k = "removepod" /\ pc[o] = "delete" ->
         /\ pods' = (IF loc[o] \in {"nolock+empty", "lock+empty"} THEN pods \ {p} ELSE pods)
         /\ lock' = [lock EXCEPT ![p] = IF @ = o THEN "" ELSE @]
         /\ Go(o, "done") /\ Keep(o) /\ UNCHANGED <<nodes, res, wls>>
    (* add-node: plugin record first (refused if it exists), then the store: read the pod, create the node keys; no lock *)
    [] k = "addnode" /\ pc[o] = "start" ->
         IF n \in res THEN Go(o, "done") /\ Keep(o) /\ UNCHANGED <<pods, nodes, res, wls, lock>>
         ELSE res' = res \cup {n} /\ Go(o, "getpod") /\ Keep(o) /\ UNCHANGED <<pods, nodes, wls, lock>>
    [] k = "addnode" /\ pc[o] = "getpod" ->
         /\ Go(o, IF p \in pods THEN "create" ELSE "rollback") /\ Keep(o) /\ UNCHANGED <<pods, nodes, res, wls, lock>>
    [] k = "addnode" /\ pc[o] = "create" ->
         IF n \in DOMAIN nodes THEN Go(o, "rollback") /\ Keep(o) /\ UNCHANGED <<pods, nodes, res, wls, lock>>
         ELSE nodes' = Put(nodes, n, p) /\ Go(o, "done") /\ Keep(o) /\ UNCHANGED <<pods, res, wls, lock>>
    [] k = "addnode" /\ pc[o] = "rollback" ->
         /\ res' = res \ {n} /\ Go(o, "done") /\ Keep(o) /\ UNCHANGED <<pods, nodes, wls, lock>>
    (* remove-node: under the pod lock: must be empty; store keys, then plugin record *)
    [] k = "removenode" /\ pc[o] = "start" ->
         IF n \notin DOMAIN nodes THEN Go(o, "done") /\ Keep(o) /\ UNCHANGED <<pods, nodes, res, wls, lock>>
         ELSE SetLoc(o, nodes[n]) /\ Go(o, "lock") /\ UNCHANGED <<pods, nodes, res, wls, lock>>
    [] k = "removenode" /\ pc[o] = "lock" ->
         /\ lock[loc[o]] = "" /\ lock' = [lock EXCEPT ![loc[o]] = o] /\ Go(o, "check") /\ Keep(o) /\ UNCHANGED <<pods, nodes, res, wls>>
    [] k = "removenode" /\ pc[o] = "check" ->
         /\ Go(o, IF {x \in DOMAIN wls : wls[x] = n} = {} THEN "delnode" ELSE "unlock") /\ Keep(o) /\ UNCHANGED <<pods, nodes, res, wls, lock>>
    [] k = "removenode" /\ pc[o] = "delnode" ->
         /\ nodes' = (IF n \in DOMAIN nodes THEN Drop(nodes, n) ELSE nodes) /\ Go(o, "delres") /\ Keep(o) /\ UNCHANGED <<pods, res, wls, lock>>
    [] k = "removenode" /\ pc[o] = "delres" ->
         /\ res' = res \ {n} /\ Go(o, "unlock") /\ Keep(o) /\ UNCHANGED <<pods, nodes, wls, lock>>
    [] k = "removenode" /\ pc[o] = "unlock" ->
         /\ lock' = [lock EXCEPT ![loc[o]] = ""] /\ Go(o, "done") /\ Keep(o) /\ UNCHANGED <<pods, nodes, res, wls>>
    (* create one instance on node n of pod p: allocation under the pod lock, the record is written after the lock is released *)
    [] k = "create" /\ pc[o] = "start" ->
         IF n \notin NodesOf(p) THEN Go(o, "done") /\ Keep(o) /\ UNCHANGED <<pods, nodes, res, wls, lock>>
         ELSE lock[p] = "" /\ lock' = [lock EXCEPT ![p] = o] /\ Go(o, "alloc") /\ Keep(o) /\ UNCHANGED <<pods, nodes, res, wls>>
    [] k = "create" /\ pc[o] = "alloc" ->
         /\ SetLoc(o, IF n \in res THEN "allocated" ELSE "refused") /\ lock' = [lock EXCEPT ![p] = ""]
         /\ Go(o, IF n \in res THEN "getnode" ELSE "done") /\ UNCHANGED <<pods, nodes, res, wls>>
    [] k = "create" /\ pc[o] = "getnode" ->
         /\ Go(o, IF n \in DOMAIN nodes THEN "record" ELSE "done") /\ Keep(o) /\ UNCHANGED <<pods, nodes, res, wls, lock>>
    [] k = "create" /\ pc[o] = "record" ->
         /\ wls' = Put(wls, w, n) /\ Go(o, "done") /\ Keep(o) /\ UNCHANGED <<pods, nodes, res, lock>>
    (* remove workload w: under the pod lock of its node *)
    [] k = "remove" /\ pc[o] = "start" ->
         IF w \notin DOMAIN wls \/ wls[w] \notin DOMAIN nodes THEN Go(o, "done") /\ Keep(o) /\ UNCHANGED <<pods, nodes, res, wls, lock>>
         ELSE SetLoc(o, nodes[wls[w]]) /\ Go(o, "lock") /\ UNCHANGED <<pods, nodes, res, wls, lock>>
    [] k = "remove" /\ pc[o] = "lock" ->
         /\ lock[loc[o]] = "" /\ lock' = [lock EXCEPT ![loc[o]] = o] /\ Go(o, "del") /\ Keep(o) /\ UNCHANGED <<pods, nodes, res, wls>>
    [] k = "remove" /\ pc[o] = "del" ->
         /\ wls' = (IF w \in DOMAIN wls THEN Drop(wls, w) ELSE wls) /\ lock' = [lock EXCEPT ![loc[o]] = ""]
         /\ Go(o, "done") /\ Keep(o) /\ UNCHANGED <<pods, nodes, res>>

\* usage accounting on top of Base: the allocation of a create, the release of a remove, and realloc (all under the pod lock)
Step(o) ==
  LET k == Op(o).kind  w == Op(o).wl IN
  CASE k = "create" /\ pc[o] = "alloc" ->
         \* the allocation is refused when the node is full
         IF "n1" \in res /\ use + 2 > Cap
         THEN /\ pc' = [pc EXCEPT ![o] = "done"] /\ lock' = [lock EXCEPT !["p1"] = ""] /\ loc' = [loc EXCEPT ![o] = "refused"]
              /\ UNCHANGED <<pods, nodes, res, wls, use, size>>
         ELSE Base(o) /\ use' = (IF "n1" \in res THEN use + 2 ELSE use) /\ UNCHANGED size
    [] k = "create" /\ pc[o] = "getnode" /\ "n1" \notin DOMAIN nodes ->
         Base(o) /\ use' = use - 2 /\ UNCHANGED size          \* the node is gone: the instance fails and its allocation is given back
    [] k = "create" /\ pc[o] = "record" -> Base(o) /\ size' = [x \in DOMAIN size \cup {w} |-> IF x = w THEN 2 ELSE size[x]] /\ UNCHANGED use
    [] k = "remove" /\ pc[o] = "del" -> Base(o) /\ use' = (IF w \in DOMAIN wls THEN use - size[w] ELSE use) /\ UNCHANGED size
    [] k = "realloc" /\ pc[o] = "start" ->
         IF w \notin DOMAIN wls \/ wls[w] \notin DOMAIN nodes
         THEN pc' = [pc EXCEPT ![o] = "done"] /\ UNCHANGED <<pods, nodes, res, wls, lock, loc, use, size>>
         ELSE pc' = [pc EXCEPT ![o] = "lock"] /\ UNCHANGED <<pods, nodes, res, wls, lock, loc, use, size>>
    [] k = "realloc" /\ pc[o] = "lock" ->
         /\ lock["p1"] = "" /\ lock' = [lock EXCEPT !["p1"] = o] /\ pc' = [pc EXCEPT ![o] = "calc"]
         /\ UNCHANGED <<pods, nodes, res, wls, loc, use, size>>
    [] k = "realloc" /\ pc[o] = "calc" ->                     \* reads the usage, decides whether one more unit fits
         /\ loc' = [loc EXCEPT ![o] = IF w \in DOMAIN wls /\ use + 1 <= Cap THEN "fits" ELSE "refused"]
         /\ pc' = [pc EXCEPT ![o] = "write"] /\ UNCHANGED <<pods, nodes, res, wls, lock, use, size>>
    [] k = "realloc" /\ pc[o] = "write" ->
         /\ use' = (IF loc[o] = "fits" THEN use + 1 ELSE use)
         /\ size' = (IF loc[o] = "fits" /\ w \in DOMAIN size THEN [size EXCEPT ![w] = @ + 1] ELSE size)
         /\ lock' = [lock EXCEPT !["p1"] = ""] /\ pc' = [pc EXCEPT ![o] = "done"] /\ UNCHANGED <<pods, nodes, res, wls, loc>>
    [] OTHER -> Base(o) /\ UNCHANGED <<use, size>>
Kinds == {"addpod", "removepod", "addnode", "removenode", "create", "remove", "realloc"}
\* the scenario: pod p1 exists; in "with-node" pre-states node n1 (with its resource record) and possibly workload w1 exist
PreStates == {"empty-pod", "with-node", "with-workload"}
MkOp(k, o) == [kind |-> k, pod |-> "p1", node |-> "n1", wl |-> IF k = "create" THEN (IF o = "A" THEN "w2" ELSE "w3") ELSE "w1"]
Init == \E pre \in PreStates, ka \in Kinds, kb \in Kinds :
          /\ pair = [A |-> MkOp(ka, "A"), B |-> MkOp(kb, "B"), pre |-> pre]
          /\ pods = {"p1"}
          /\ nodes = (IF pre = "empty-pod" THEN <<>> ELSE [x \in {"n1"} |-> "p1"])
          /\ res = (IF pre = "empty-pod" THEN {} ELSE {"n1"})
          /\ wls = (IF pre = "with-workload" THEN [x \in {"w1"} |-> "n1"] ELSE <<>>)
          /\ lock = [x \in {"p1"} |-> ""] /\ pc = [o \in Procs |-> "start"] /\ loc = [o \in Procs |-> ""]
          /\ use = (IF pre = "with-workload" THEN 2 ELSE 0)
          /\ size = (IF pre = "with-workload" THEN [x \in {"w1"} |-> 2] ELSE <<>>)
Next == \E o \in Procs : pc[o] # "done" /\ Step(o) /\ UNCHANGED pair
Spec == Init /\ [][Next]_vars

Quiescent == \A o \in Procs : pc[o] = "done"
RefOK ==
    /\ \A n \in DOMAIN nodes : nodes[n] \in pods            \* a pod that still has nodes has not been removed
    /\ DOMAIN nodes \subseteq res /\ res \subseteq DOMAIN nodes  \* node <-> resource record
    /\ \A w \in DOMAIN wls : wls[w] \in DOMAIN nodes        \* every workload belongs to a recorded node
Referential == Quiescent => RefOK
RECURSIVE SumSize(_)
SumSize(S) == IF S = {} THEN 0 ELSE LET x == CHOOSE y \in S : TRUE IN size[x] + SumSize(S \ {x})
UsageOK == use <= Cap /\ ("n1" \in res => use = SumSize(DOMAIN wls \cap DOMAIN size))
Which == IF ~(\A n \in DOMAIN nodes : nodes[n] \in pods) THEN "node-in-removed-pod"
         ELSE IF ~(DOMAIN nodes \subseteq res) THEN "node-without-resource-record"
         ELSE IF ~(res \subseteq DOMAIN nodes) THEN "resource-record-without-node"
         ELSE IF ~(\A w \in DOMAIN wls : wls[w] \in DOMAIN nodes) THEN "workload-on-unrecorded-node"
         ELSE IF ~UsageOK THEN "usage-differs-or-above-capacity" ELSE "ok"
=============================================================================
