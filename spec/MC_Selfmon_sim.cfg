SPECIFICATION Spec
CONSTANTS
  Nodes = {"n1", "n2"}
  ScanFirst = "n1"
  Focus = "no"
  MaxOps = 9
INVARIANT DownWhenSettled
CONSTRAINT Emit
CHECK_DEADLOCK FALSE
