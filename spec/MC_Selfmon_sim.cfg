SPECIFICATION Spec
CONSTANTS
  Nodes = {"n1", "n2"}
  Focus = FALSE
  MaxOps = 9
INVARIANT DownWhenSettled
CONSTRAINT Emit
CHECK_DEADLOCK FALSE
