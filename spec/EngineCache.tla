----------------------------- MODULE EngineCache -----------------------------
(***************************************************************************)
(* The engine client cache (engine/factory/factory.go), beyond the listed  *)
(* properties: one cached entry per engine endpoint,                       *)
(*   "absent" | "ok" (a validated client) | "err" (a placeholder that      *)
(*   fails every call: fake.EngineWithErr)                                 *)
(* GetEngine creates the entry on a miss (validated client if the engine   *)
(* answers, placeholder otherwise).  The liveness loop (checkAlive, one    *)
(* round per ConnectionTimeout) replaces a client whose engine stopped     *)
(* answering by the placeholder, a placeholder whose engine answers again  *)
(* by a fresh client, and drops a placeholder whose node has no heartbeat  *)
(* status.  The node-status watcher (checkNodeStatus) drops the entry when *)
(* the node's status lapses.                                               *)
(*   reach  the engine answers (environment)                               *)
(*   alive  the node has a heartbeat status (environment)                  *)
(* Property: once the environment is quiet, two rounds later the cache     *)
(* tells the truth: never "ok" for an engine that does not answer, never   *)
(* "err" for one that does.                                                *)
(***************************************************************************)
EXTENDS Integers, Sequences, TLC
CONSTANTS MaxOps
VARIABLES reach, alive, cache, hist
vars == <<reach, alive, cache, hist>>
O(op) == [op |-> op]
Init == reach = TRUE /\ alive = TRUE /\ cache = "absent" /\ hist = <<>>
Up == ~reach /\ reach' = TRUE /\ UNCHANGED <<alive, cache>> /\ hist' = Append(hist, O("up"))
Down == reach /\ reach' = FALSE /\ UNCHANGED <<alive, cache>> /\ hist' = Append(hist, O("down"))
Heartbeat == ~alive /\ alive' = TRUE /\ UNCHANGED <<reach, cache>> /\ hist' = Append(hist, O("hb"))
\* the status watcher drops the entry when the status lapses
Lapse == alive /\ alive' = FALSE /\ cache' = "absent" /\ UNCHANGED reach /\ hist' = Append(hist, O("lapse"))
Get == /\ cache' = (IF cache = "absent" THEN (IF reach THEN "ok" ELSE "err") ELSE cache)
       /\ UNCHANGED <<reach, alive>> /\ hist' = Append(hist, O("get"))
Settled(c) == CASE c = "ok" /\ ~reach -> "err"
                [] c = "err" /\ reach -> "ok"
                [] c = "err" /\ ~reach /\ ~alive -> "absent"
                [] OTHER -> c
\* "wait": at least two rounds of the liveness loop
Wait == /\ hist # <<>> /\ hist[Len(hist)].op # "wait"
        /\ cache' = Settled(Settled(cache)) /\ UNCHANGED <<reach, alive>> /\ hist' = Append(hist, O("wait"))
\* engines of OTHER endpoints enter and leave the cache, one being removed at the moment the next is added: nothing about this
\* endpoint's entry changes (the cache is shared by every caller and by the two background loops)
Churn == /\ (IF hist = <<>> THEN TRUE ELSE hist[Len(hist)].op # "churn") /\ \A i \in 1..Len(hist) : hist[i].op # "churn"
         /\ UNCHANGED <<reach, alive, cache>> /\ hist' = Append(hist, O("churn"))
Next == Len(hist) < MaxOps /\ (Up \/ Down \/ Heartbeat \/ Lapse \/ Get \/ Wait \/ Churn)
Spec == Init /\ [][Next]_vars
\* after a wait the cache tells the truth
TruthAfterWait == (hist # <<>> /\ hist[Len(hist)].op = "wait") => /\ (cache = "ok" => reach) /\ (cache = "err" => ~reach)
=============================================================================
