---------------------------- MODULE Trace_Cluster ----------------------------
(* Judges runs of the cluster drivers.  A run is: Run header, Snap(pre),      *)
(* [Prior], Call, Ext* (one per external call the operation made, in gate     *)
(* order, the injected one marked), Msg*, Return, [Crash, Recovered], Snap     *)
(* (post).  The state predicates come from ClusterState; this module adds the  *)
(* per-operation bookkeeping (planned instances from the allocation calls,     *)
(* containers created / logged before a crash) that the predicates need.       *)
EXTENDS ClusterState, TraceBase
VARIABLES l, hdr, pre, prior, planned, injected, crashed, msgs, retv, created, logged, nalloc, natural, lamb, lastcap
tvars == <<l, hdr, pre, prior, planned, injected, crashed, msgs, retv, created, logged, nalloc, natural, lamb, lastcap>>

OpKind == hdr.scenario.op.kind
Where == (IF Has(hdr, "store") /\ hdr.store = "redis" THEN "redis-store/" ELSE "") \o (IF Has(hdr, "pool") THEN "full-worker-pool/" ELSE "") \o OpKind \o "/" \o (IF crashed # "none" THEN "crash@" \o crashed ELSE IF injected # "none" THEN "fault@" \o injected ELSE "fault-free")
Get(f, k, d) == IF k \in DOMAIN f THEN f[k] ELSE d
PriorOf(n) == LET R == {i \in 1..Len(prior) : prior[i].node = n} IN IF R = {} THEN 0 ELSE prior[CHOOSE i \in R : TRUE].ds

(* ---- C20: one global lock order. cls: 1 pod lock, 2 workload lock, 3 node-operation lock; ---- *)
(* ---- rank: position of the key in the sorted list of all keys of the run                  ---- *)
LockOrderOK(e) ==
    IF e.cls = 3 THEN e.heldcls = <<>>
    ELSE \A i \in 1..Len(e.heldcls) :
            /\ e.heldcls[i] # 3
            /\ (e.heldcls[i] < e.cls \/ (e.heldcls[i] = e.cls /\ e.heldranks[i] < e.rank))

(* ---- C13 while the deployment runs ---- *)
ObsOK(e, pl) == \A i \in 1..Len(e.obs) : LET r == e.obs[i] IN r.rec <= r.ds /\ r.ds <= PriorOf(r.node) + Get(pl, r.node, 0)

(* ---- post-state checks ---- *)
OkMsgs == {i \in 1..Len(msgs) : msgs[i].class = "ok"}
ErrMsgs == {i \in 1..Len(msgs) : msgs[i].class # "ok"}
NewWls(s) == WlIds(s) \ WlIds(pre)
NewContainers(s) == ContainerIds(s) \ ContainerIds(pre)
Planned == SumSeq([i \in 1..Len(nalloc) |-> nalloc[i]])

\* C12: the create stream closed; one failure and nothing created, or one message per planned instance, each truthful
CreateTruthful(s, rt) ==
    IF rt.class # "ok" THEN NewWls(s) = {} /\ NewContainers(s) = {}
    ELSE /\ rt.closed
         /\ \/ (Len(msgs) = 1 /\ OkMsgs = {} /\ NewWls(s) = {} /\ NewContainers(s) = {})
            \/ (Len(msgs) = Planned /\ Planned > 0)
         /\ \A i \in OkMsgs : LET m == msgs[i] IN
               /\ m.id \in WlIds(s)
               /\ LET x == FindWl(s, m.id) IN
                    x.node = m.node /\ x.w.container /\ x.w.running
                    /\ x.w.cpu = m.res.cpu /\ x.w.mem = m.res.mem /\ x.w.cores = m.res.cores /\ x.w.numamem = m.res.numamem
         /\ NewWls(s) = {msgs[i].id : i \in OkMsgs}
         /\ NewContainers(s) = {msgs[i].id : i \in OkMsgs}
WhyCreate(s, rt) ==
    IF rt.class = "hang" \/ (rt.class = "ok" /\ ~rt.closed) THEN "stream-never-closed"
    ELSE IF rt.class = "ok" /\ ~(Len(msgs) = Planned \/ (Len(msgs) = 1 /\ OkMsgs = {})) THEN "message-count-differs-from-plan"
    ELSE IF NewWls(s) # {msgs[i].id : i \in OkMsgs} THEN "recorded-workloads-differ-from-successes"
    ELSE IF NewContainers(s) # {msgs[i].id : i \in OkMsgs} THEN "containers-differ-from-successes"
    ELSE "success-message-not-truthful"

\* C11: what reported failure left no trace
OpFailed(rt) == rt.class = "err" \/ (rt.kind = "create" /\ rt.class = "ok" /\ OkMsgs = {} /\ ErrMsgs # {})
              \/ (rt.kind \in {"remove", "dissociate", "replace", "realloc"} /\ OkMsgs = {} /\ ErrMsgs # {})
PartUntouched(s, id) ==
    /\ id \in WlIds(pre) => (id \in WlIds(s) /\ WlCore(FindWl(s, id).w) = WlCore(FindWl(pre, id).w) /\ FindWl(s, id).node = FindWl(pre, id).node
                             /\ FindWl(s, id).w.running = FindWl(pre, id).w.running)
FailedPartsUntouched(s, rt) ==
    rt.kind \in {"remove", "dissociate", "replace", "realloc"} => \A i \in ErrMsgs : msgs[i].id # "" => PartUntouched(s, msgs[i].id)

\* C30: run-and-wait workloads are cleaned up, the exit code (or the error that prevented it) is the last message of
\* its workload, the recovery-log entries are committed
LambdaIds(rt) == {rt.ids[i] : i \in 1..Len(rt.ids)} \ {""}
LastOf(id) == LET I == {i \in 1..Len(msgs) : msgs[i].id = id} IN msgs[CHOOSE i \in I : \A j \in I : j <= i]
WantCode == IF hdr.scenario.op.delta = "exit3" THEN 3 ELSE 0
LambdaLastOK(rt) == \A id \in LambdaIds(rt) :
    /\ \E i \in 1..Len(msgs) : msgs[i].id = id
    /\ LET m == LastOf(id) IN
         IF hdr.scenario.op.delta \in {"ok", "exit3"} THEN m.exit /\ m.code = WantCode ELSE (m.exit \/ m.stream = "error")
LambdaCleaned(s) == NewWls(s) = {} /\ NewContainers(s) = {}

\* beyond the listed properties: a control call never touches records or usage; a successful stop leaves the container
\* stopped, a successful start / restart leaves it running (reported as REF: diagnostic, no verdict)
ControlOK(s) ==
    /\ {WlCore(x.w) : x \in AllWls(s)} = {WlCore(x.w) : x \in AllWls(pre)}
    /\ \A i \in OkMsgs : msgs[i].id \in WlIds(s) /\ FindWl(s, msgs[i].id).w.running = (hdr.scenario.op.delta # "stop")

\* beyond the listed properties: the capacity query.  It never changes anything; for requests without CPU binding and
\* the plain ("DUMMY") rule every node is offered with (free memory) div (requested memory) instances, nodes with none
\* are not offered, and the total is their sum; refused only when no node has any.  For the deployment rules, the plan
\* it reports has as many instances as the same deployment then creates on the unchanged state (the same per node
\* for EACH; AUTO and FILL break ties between equal nodes by the order of a Go map, so only the number is fixed).
MemReq(req) == IF req = "m" THEN 2 ELSE 1
WantCap(nd, req) == LET free == nd.cap.mem - nd.use.mem IN IF free <= 0 THEN 0 ELSE free \div MemReq(req)
CapOf(pc, n) == LET R == {i \in 1..Len(pc) : pc[i].node = n} IN IF R = {} THEN 0 ELSE pc[CHOOSE i \in R : TRUE].n
Offered(pc) == {pc[i].node : i \in 1..Len(pc)}
Usable(s) == {i \in 1..Len(s.nodes) : s.nodes[i].hasres /\ ~s.nodes[i].bypass}
CapacityByMemoryOK(s, rt) ==
    LET req == hdr.scenario.op.req IN
    IF rt.class = "ok"
    THEN /\ \A i \in Usable(s) : CapOf(rt.percap, s.nodes[i].name) = WantCap(s.nodes[i], req) /\ (WantCap(s.nodes[i], req) = 0 => s.nodes[i].name \notin Offered(rt.percap))
         /\ Offered(rt.percap) \subseteq {s.nodes[i].name : i \in Usable(s)}
         /\ rt.total = SumSeq([i \in 1..Len(rt.percap) |-> rt.percap[i].n])
    ELSE \A i \in Usable(s) : WantCap(s.nodes[i], req) = 0
NewOn(s, n) == Cardinality({x \in AllWls(s) : x.node = n /\ x.w.id \notin WlIds(pre)})
SameAsk(a, b) == a.strategy = b.strategy /\ a.count = b.count /\ a.req = b.req /\ a.app = b.app
CreateFollowsCapacity(s, rt) ==
    IF lastcap.class = "ok"
    THEN /\ rt.class = "ok" /\ ErrMsgs = {}
         /\ Cardinality(OkMsgs) = lastcap.total
         /\ (lastcap.op.strategy = "EACH" => \A i \in 1..Len(s.nodes) : NewOn(s, s.nodes[i].name) = CapOf(lastcap.percap, s.nodes[i].name))
    ELSE OkMsgs = {}

\* beyond the listed properties: the streaming calls that only read.  Copy: exactly one message per requested (workload,
\* path), none other; a success carries that path's content; without an injected failure exactly the existing paths of
\* existing workloads succeed.  Execute: the stream closes; without a failure the output lines are followed by the exit
\* code as the last message; when the engine refuses, or the exit code cannot be read, an error text and no exit code.
Pairs == {<<msgs[i].id, msgs[i].path>> : i \in 1..Len(msgs)}
CopyOK(rt) ==
    /\ rt.closed /\ Len(msgs) = rt.npairs /\ Cardinality(Pairs) = rt.npairs
    /\ \A i \in OkMsgs : msgs[i].content = "content-of-" \o msgs[i].path
    /\ (injected = "none" => \A i \in 1..Len(msgs) : (msgs[i].class = "ok") <=> (msgs[i].known /\ msgs[i].path \in {"/f1", "/f2"}))
ExitMsgs == {i \in 1..Len(msgs) : msgs[i].exit}
ExecuteOK(rt) ==
    /\ rt.closed /\ Cardinality(ExitMsgs) <= 1 /\ (\A i \in ExitMsgs : i = Len(msgs))
    /\ (injected = "none" =>
          IF hdr.scenario.op.delta \in {"ok", "exit3"}
          THEN Len(msgs) = 3 /\ ExitMsgs = {3} /\ msgs[3].code = (IF hdr.scenario.op.delta = "exit3" THEN 3 ELSE 0)
               /\ msgs[1].data = "line one\n" /\ msgs[2].data = "line two\n"
          ELSE ExitMsgs = {} /\ Len(msgs) >= 1)

\* C13 after the deployment returned: no marker of the application, counts = recorded
\* (markers that were already there before the call belong to an earlier deployment of a history)
NoMarkers(s) == \A i \in 1..Len(s.proc) : s.proc[i].app = hdr.scenario.op.app => \E j \in 1..Len(pre.proc) : pre.proc[j].ident = s.proc[i].ident

\* C14: after crash + recovery
RecoveredOK(s) ==
    /\ \A id \in WlIds(pre) : PartUntouched(s, id)
    /\ \A x \in AllWls(s) : x.w.id \notin WlIds(pre) => (x.w.container /\ x.w.running)
    /\ Cardinality({i \in 1..Len(s.containers) : ~s.containers[i].recorded}) <= created - logged
WhyRecovered(s) == IF ~(\A id \in WlIds(pre) : PartUntouched(s, id)) THEN "pre-existing-workload-changed"
                   ELSE IF ~(\A x \in AllWls(s) : x.w.id \notin WlIds(pre) => (x.w.container /\ x.w.running)) THEN "recorded-but-not-running"
                   ELSE "unrecorded-container-left"

TraceInit == /\ l = 1 /\ hdr = <<>> /\ pre = <<>> /\ prior = <<>> /\ planned = <<>> /\ injected = "none" /\ crashed = "none"
             /\ msgs = <<>> /\ retv = <<>> /\ created = 0 /\ logged = 0 /\ nalloc = <<>> /\ natural = "none" /\ lamb = 0 /\ lastcap = <<>>
StateChecks(s, when) ==
    /\ Report(UsageIsSum(s), "C10", l, "usage-differs-from-workload-sum/" \o when \o "/" \o Where)
    /\ Report(NoOvercommit(s), "C10", l, "usage-above-capacity/" \o when \o "/" \o Where)
    /\ Report(DiffsEmpty(s) \/ ~UsageIsSum(s), "C10", l, "resource-check-reports-differences/" \o when \o "/" \o Where)
    /\ Report(PodsOfNodesExist(s), "C22", l, "node-in-removed-pod/" \o when \o "/" \o Where)
    /\ Report(NodesHaveResources(s), "C22", l, "node-without-resource-record/" \o when \o "/" \o Where)
    /\ Report(ResourcesHaveNodes(s), "C22", l, "resource-record-without-node/" \o when \o "/" \o Where)
    /\ Report(WorkloadsHaveNodes(s), "C22", l, "workload-on-unrecorded-node/" \o when \o "/" \o Where)
TraceNext ==
    /\ l <= Len(Trace)
    /\ LET e == Trace[l] IN
       CASE e.ev = "Run" ->
              /\ hdr' = e /\ pre' = <<>> /\ prior' = <<>> /\ planned' = <<>> /\ injected' = "none" /\ crashed' = "none"
              /\ msgs' = <<>> /\ retv' = <<>> /\ created' = 0 /\ logged' = 0 /\ nalloc' = <<>> /\ natural' = "none" /\ lamb' = 0
              /\ lastcap' = (IF lastcap # <<>> /\ Has(e, "history") /\ lastcap.history = e.history /\ lastcap.run + 1 = e.run THEN lastcap ELSE <<>>)
         [] e.ev = "Snap" /\ e.when = "pre" ->
              /\ pre' = e /\ StateChecks(e, "pre-state")
              /\ UNCHANGED <<hdr, prior, planned, injected, crashed, msgs, retv, created, logged, nalloc, natural, lamb, lastcap>>
         [] e.ev = "Prior" -> prior' = e.rows /\ UNCHANGED <<hdr, pre, planned, injected, crashed, msgs, retv, created, logged, nalloc, natural, lamb, lastcap>>
         [] e.ev = "Ext" ->
              /\ injected' = (IF injected # "none" THEN injected
                              ELSE IF Has(e, "cancelled") THEN "caller-gave-up-at-" \o e.target \o "." \o e.method
                              ELSE IF Has(e, "hung") THEN "slower-than-the-global-timeout-" \o e.target \o "." \o e.method
                              ELSE IF e.class = "injected" THEN e.target \o "." \o e.method ELSE injected)
              /\ planned' = (IF e.target = "rmgr" /\ e.method = "Alloc" /\ e.class = "ok"
                             THEN [k \in DOMAIN planned \cup {e.node} |-> IF k = e.node THEN Get(planned, e.node, 0) + e.n ELSE planned[k]] ELSE planned)
              /\ nalloc' = (IF e.target = "rmgr" /\ e.method = "Alloc" /\ e.class = "ok" THEN Append(nalloc, e.n) ELSE nalloc)
              /\ lamb' = (IF e.target = "wal" /\ e.type = "create-lambda" /\ e.class = "ok" THEN lamb + (IF e.method = "Log" THEN 1 ELSE -1) ELSE lamb)
              /\ logged' = (IF e.target = "wal" /\ e.method = "Log" /\ e.type = "create-workload" /\ e.class = "ok" THEN logged + 1 ELSE logged)
              /\ (IF Has(e, "obs") /\ ~e.obserr THEN Report(ObsOK(e, planned'), "C13", l, "count-out-of-bounds-during-deployment/" \o e.target \o "." \o e.method \o "/" \o Where) ELSE TRUE)
              /\ (IF e.target = "lock" /\ e.class # "injected" /\ Has(e, "cls") THEN Report(LockOrderOK(e), "C20", l, "lock-out-of-order/" \o OpKind) ELSE TRUE)
              \* a call that failed by itself before the injected one: the run has two failures, outside "single failure"
              \* "envfail": the embedded store itself failed (timed out under load): the run is outside the failure model
              /\ natural' = (IF e.class = "envfail" THEN "ENV"
                              ELSE IF e.class = "err" /\ injected = "none" /\ ~Has(e, "cancelled") /\ ~Has(e, "hung") /\ e.target \in {"store", "plugin", "engine", "wal"} /\ natural = "none"
                              THEN e.target \o "." \o e.method ELSE natural)
              /\ created' = (IF e.target = "engine" /\ e.method = "Create" /\ e.class = "ok" THEN created + 1 ELSE created)
              /\ UNCHANGED <<hdr, pre, prior, crashed, msgs, retv, lastcap>>
         [] e.ev = "Crash" -> crashed' = e.target \o "." \o e.method /\ UNCHANGED <<hdr, pre, prior, planned, injected, msgs, retv, created, logged, nalloc, natural, lamb, lastcap>>
         [] e.ev = "Msg" -> msgs' = Append(msgs, e) /\ UNCHANGED <<hdr, pre, prior, planned, injected, crashed, retv, created, logged, nalloc, natural, lamb, lastcap>>
         [] e.ev = "Return" ->
              /\ retv' = e
              /\ lastcap' = (IF e.kind = "capacity" /\ Has(hdr, "history") /\ injected = "none" /\ natural = "none" /\ e.class # "hang"
                              THEN [history |-> hdr.history, run |-> hdr.run, op |-> hdr.scenario.op, class |-> e.class, percap |-> e.percap, total |-> e.total]
                              ELSE lastcap)
              /\ UNCHANGED <<hdr, pre, prior, planned, injected, crashed, msgs, created, logged, nalloc, natural, lamb>>
         [] e.ev = "Snap" /\ e.when = "post" ->
              /\ (IF (injected # "none" /\ natural # "none") \/ natural = "ENV" THEN TRUE ELSE StateChecks(e, "after"))
              /\ (IF crashed # "none" /\ natural = "ENV" THEN TRUE
                  ELSE IF crashed # "none"
                  THEN /\ Report(RecoveredOK(e), "C14", l, WhyRecovered(e) \o "/" \o Where)
                       /\ Report(UsageIsSum(e), "C14", l, "usage-differs-from-workload-sum-after-recovery/" \o Where)
                       /\ Report(NoMarkers(e), "C14", l, "marker-left-after-recovery/" \o Where)
                  ELSE IF retv = <<>> \/ (injected # "none" /\ natural # "none") \/ natural = "ENV" THEN TRUE
                  ELSE /\ Report(retv.class # "hang", "C12", l, "operation-never-returned/" \o Where)
                       /\ (IF OpKind = "create" THEN Report(CreateTruthful(e, retv), "C12", l, WhyCreate(e, retv) \o "/" \o Where) ELSE TRUE)
                       /\ (IF OpKind = "create" /\ injected \notin {"store.DeleteProcessing", "slower-than-the-global-timeout-store.DeleteProcessing"}   \* the failure is the clean-up call itself: nothing to judge
                            THEN Report(NoMarkers(e), "C13", l, "marker-left-after-deployment/" \o Where) ELSE TRUE)
                       /\ (IF OpFailed(retv) THEN Report(CoreDiff(pre, e) = "none", "C11", l, "failed-operation-changed-" \o CoreDiff(pre, e) \o "/" \o Where) ELSE TRUE)
                       /\ Report(FailedPartsUntouched(e, retv), "C11", l, "failed-part-changed-its-workload/" \o Where)
                       /\ (IF OpKind = "control" /\ retv.class = "ok" THEN Report(ControlOK(e), "REF", l, "control-changed-records-or-left-wrong-run-state/" \o hdr.scenario.op.delta \o "/" \o Where) ELSE TRUE)
                       /\ (IF OpKind \in {"copy", "execute"} THEN Report(CoreDiff(pre, e) = "none", "REF", l, OpKind \o "-changed-" \o CoreDiff(pre, e) \o "/" \o Where) ELSE TRUE)
                       /\ (IF OpKind = "copy" /\ retv.class = "ok" THEN Report(CopyOK(retv), "REF", l, "copy-messages-not-one-per-path-or-untruthful/" \o hdr.scenario.op.delta \o "/" \o Where) ELSE TRUE)
                       /\ (IF OpKind = "execute" /\ retv.class = "ok" THEN Report(ExecuteOK(retv), "REF", l, "execute-stream-contract/" \o hdr.scenario.op.delta \o "/" \o Where) ELSE TRUE)
                       /\ (IF OpKind = "capacity" THEN Report(CoreDiff(pre, e) = "none", "REF", l, "capacity-query-changed-" \o CoreDiff(pre, e) \o "/" \o Where) ELSE TRUE)
                       /\ (IF OpKind = "capacity" /\ injected = "none" /\ natural = "none" /\ retv.class # "hang" /\ hdr.scenario.op.strategy = "DUMMY" /\ hdr.scenario.op.req \in {"u", "m"}
                           THEN Report(CapacityByMemoryOK(pre, retv), "REF", l, "capacity-by-memory-differs-from-free-memory/" \o hdr.scenario.op.req \o "/" \o retv.class) ELSE TRUE)
                       /\ (IF OpKind = "create" /\ lastcap # <<>> /\ injected = "none" /\ retv.class # "hang" /\ SameAsk(lastcap.op, hdr.scenario.op)
                           THEN Report(CreateFollowsCapacity(e, retv), "REF", l, "deployment-differs-from-reported-capacity/" \o hdr.scenario.op.strategy \o "/" \o hdr.scenario.op.req \o "/capacity-" \o lastcap.class) ELSE TRUE)
                       /\ (IF OpKind = "lambda" /\ retv.class = "ok"
                           THEN /\ Report(LambdaCleaned(e), "C30", l, "run-and-wait-workload-left-behind/" \o hdr.scenario.op.delta)
                                /\ Report(LambdaLastOK(retv), "C30", l, "exit-code-not-last-message/" \o hdr.scenario.op.delta)
                                /\ Report(lamb = 0, "C30", l, "recovery-log-entry-not-committed/" \o hdr.scenario.op.delta)
                           ELSE TRUE)
                       /\ (IF OpKind = "lambda" THEN Report(retv.class # "hang" /\ (retv.class = "ok" => retv.closed), "C30", l, "output-stream-never-closed/" \o hdr.scenario.op.delta) ELSE TRUE))
              /\ UNCHANGED <<hdr, pre, prior, planned, injected, crashed, msgs, retv, created, logged, nalloc, natural, lamb, lastcap>>
         [] OTHER -> UNCHANGED <<hdr, pre, prior, planned, injected, crashed, msgs, retv, created, logged, nalloc, natural, lamb, lastcap>>
    /\ l' = l + 1
TraceSpec == TraceInit /\ [][TraceNext]_tvars
TraceAccepted == IF TLCGet("stats").diameter - 1 = Len(Trace)
                 THEN PrintT(<<"ACCEPTED", Len(Trace)>>)
                 ELSE PrintT(<<"REJECTED", TLCGet("stats").diameter - 1, Len(Trace)>>)
=============================================================================
