SPECIFICATION FixSpec
CONSTANTS
  FixNodes = {"numa4"}
  FixUsed = {0, 2}
  FixMem = {0, 2, 5}
  FixKinds = {"b10", "b05", "u05", "b15"}
  FixMaxW = 2
CONSTRAINT EmitFix
CHECK_DEADLOCK FALSE
