SPECIFICATION Spec
CONSTANTS
  NodeKinds = {"numa4", "share3", "plain4", "numa6", "plain2"}
  AllocKinds = {"b10", "b05", "b15", "b20", "u05", "u00", "ulim"}
  ReallocKinds = {"cpu+", "cpu-", "mem+", "mem-", "keep", "unbind", "bind", "memlim+", "cpureq-"}
  Slots = {1, 2, 3, 4}
  Depth = 9
CONSTRAINT EmitHist
CHECK_DEADLOCK FALSE
