SPECIFICATION Spec
CONSTANTS
  Types = {"tA", "tB", "tU"}
  Plans <- PlansDef
  MaxOps = 12
  Slots = {1, 2, 3}
INVARIANTS Ordered IdsFresh HandledInOrder
PROPERTY IdsNeverReused
CONSTRAINT Emit
CHECK_DEADLOCK FALSE
