SPECIFICATION Spec
CONSTANTS
  Addrs = {"a1", "a2"}
  Subs = {"s1", "s4"}
  Kind <- KindSim
  MaxOps = 6
CONSTRAINT Emit
CHECK_DEADLOCK FALSE
