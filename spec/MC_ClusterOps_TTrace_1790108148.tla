---- MODULE MC_ClusterOps_TTrace_1790108148 ----
EXTENDS Sequences, TLCExt, Toolbox, MC_ClusterOps, Naturals, TLC

_expression ==
    LET MC_ClusterOps_TEExpression == INSTANCE MC_ClusterOps_TEExpression
    IN MC_ClusterOps_TEExpression!expression
----

_trace ==
    LET MC_ClusterOps_TETrace == INSTANCE MC_ClusterOps_TETrace
    IN MC_ClusterOps_TETrace!trace
----

_inv ==
    ~(
        TLCGet("level") = Len(_TETrace)
        /\
        todo = (<<>>)
        /\
        hist = (<<[c |-> "store.GetWorkloads", ok |-> FALSE]>>)
        /\
        applied = (1)
        /\
        kind = ("remove")
        /\
        record = ("old")
        /\
        cont = ("old")
        /\
        faults = (1)
        /\
        out = ("err")
    )
----

_init ==
    /\ out = _TETrace[1].out
    /\ faults = _TETrace[1].faults
    /\ record = _TETrace[1].record
    /\ todo = _TETrace[1].todo
    /\ applied = _TETrace[1].applied
    /\ cont = _TETrace[1].cont
    /\ hist = _TETrace[1].hist
    /\ kind = _TETrace[1].kind
----

_next ==
    /\ \E i,j \in DOMAIN _TETrace:
        /\ \/ /\ j = i + 1
              /\ i = TLCGet("level")
        /\ out  = _TETrace[i].out
        /\ out' = _TETrace[j].out
        /\ faults  = _TETrace[i].faults
        /\ faults' = _TETrace[j].faults
        /\ record  = _TETrace[i].record
        /\ record' = _TETrace[j].record
        /\ todo  = _TETrace[i].todo
        /\ todo' = _TETrace[j].todo
        /\ applied  = _TETrace[i].applied
        /\ applied' = _TETrace[j].applied
        /\ cont  = _TETrace[i].cont
        /\ cont' = _TETrace[j].cont
        /\ hist  = _TETrace[i].hist
        /\ hist' = _TETrace[j].hist
        /\ kind  = _TETrace[i].kind
        /\ kind' = _TETrace[j].kind

\* Uncomment the ASSUME below to write the states of the error trace
\* to the given file in Json format. Note that you can pass any tuple
\* to `JsonSerialize`. For example, a sub-sequence of _TETrace.
    \* ASSUME
    \*     LET J == INSTANCE Json
    \*         IN J!JsonSerialize("MC_ClusterOps_TTrace_1790108148.json", _TETrace)

=============================================================================

 Note that you can extract this module `MC_ClusterOps_TEExpression`
  to a dedicated file to reuse `expression` (the module in the 
  dedicated `MC_ClusterOps_TEExpression.tla` file takes precedence 
  over the module `MC_ClusterOps_TEExpression` below).

---- MODULE MC_ClusterOps_TEExpression ----
EXTENDS Sequences, TLCExt, Toolbox, MC_ClusterOps, Naturals, TLC

expression == 
    [
        \* To hide variables of the `MC_ClusterOps` spec from the error trace,
        \* remove the variables below.  The trace will be written in the order
        \* of the fields of this record.
        out |-> out
        ,faults |-> faults
        ,record |-> record
        ,todo |-> todo
        ,applied |-> applied
        ,cont |-> cont
        ,hist |-> hist
        ,kind |-> kind
        
        \* Put additional constant-, state-, and action-level expressions here:
        \* ,_stateNumber |-> _TEPosition
        \* ,_outUnchanged |-> out = out'
        
        \* Format the `out` variable as Json value.
        \* ,_outJson |->
        \*     LET J == INSTANCE Json
        \*     IN J!ToJson(out)
        
        \* Lastly, you may build expressions over arbitrary sets of states by
        \* leveraging the _TETrace operator.  For example, this is how to
        \* count the number of times a spec variable changed up to the current
        \* state in the trace.
        \* ,_outModCount |->
        \*     LET F[s \in DOMAIN _TETrace] ==
        \*         IF s = 1 THEN 0
        \*         ELSE IF _TETrace[s].out # _TETrace[s-1].out
        \*             THEN 1 + F[s-1] ELSE F[s-1]
        \*     IN F[_TEPosition - 1]
    ]

=============================================================================



Parsing and semantic processing can take forever if the trace below is long.
 In this case, it is advised to uncomment the module below to deserialize the
 trace from a generated binary file.

\*
\*---- MODULE MC_ClusterOps_TETrace ----
\*EXTENDS IOUtils, MC_ClusterOps, TLC
\*
\*trace == IODeserialize("MC_ClusterOps_TTrace_1790108148.bin", TRUE)
\*
\*=============================================================================
\*

---- MODULE MC_ClusterOps_TETrace ----
EXTENDS MC_ClusterOps, TLC

trace == 
    <<
    ([todo |-> <<[c |-> "store.GetWorkloads", ok |-> "none", fail |-> "apierr"], [c |-> "store.GetNode", ok |-> "none", fail |-> "nodeerr"], [c |-> "lock.Lock", ok |-> "none", fail |-> "nodeerr"], [c |-> "store.GetWorkloads", ok |-> "none", fail |-> "wlerr"], [c |-> "lock.Lock", ok |-> "none", fail |-> "wlerr"], [c |-> "plugin.SetNodeResourceUsage", ok |-> "release", fail |-> "wlerr"], [c |-> "store.RemoveWorkload", ok |-> "unrecord", fail |-> "rm-rb1"], [c |-> "engine.Remove", ok |-> "destroy", fail |-> "rm-rb2"], [c |-> "", ok |-> "report-ok", fail |-> ""], [c |-> "store.GetNode", ok |-> "none", fail |-> "stop"], [c |-> "lock.Lock", ok |-> "none", fail |-> "stop"], [c |-> "store.ListNodeWorkloads", ok |-> "none", fail |-> "stop"]>>,hist |-> <<>>,applied |-> 1,kind |-> "remove",record |-> "old",cont |-> "old",faults |-> 0,out |-> "running"]),
    ([todo |-> <<[c |-> "", ok |-> "report-err", fail |-> ""]>>,hist |-> <<[c |-> "store.GetWorkloads", ok |-> FALSE]>>,applied |-> 1,kind |-> "remove",record |-> "old",cont |-> "old",faults |-> 1,out |-> "running"]),
    ([todo |-> <<>>,hist |-> <<[c |-> "store.GetWorkloads", ok |-> FALSE]>>,applied |-> 1,kind |-> "remove",record |-> "old",cont |-> "old",faults |-> 1,out |-> "err"])
    >>
----


=============================================================================

---- CONFIG MC_ClusterOps_TTrace_1790108148 ----
CONSTANTS
    Kinds <- AllKinds

INVARIANT
    _inv

CHECK_DEADLOCK
    \* CHECK_DEADLOCK off because of PROPERTY or INVARIANT above.
    FALSE

INIT
    _init

NEXT
    _next

CONSTANT
    _TETrace <- _trace

ALIAS
    _expression
=============================================================================
\* Generated on Tue Sep 22 20:15:56 UTC 2026