----------------------------- MODULE Trace_Store -----------------------------
(* Judges store histories executed on both backends against the Store        *)
(* reference.  Each StoreOp event carries the call, the result class and a   *)
(* read-back snapshot of the etcd store (classE, snapE) and of the Redis     *)
(* store (classR, snapR).  The trace spec replays the call with Store!Apply  *)
(* and compares, per backend, result and snapshot with Store!Class and the   *)
(* projection of the reference state.                                        *)
(*  C23: same result, same observable metadata on both backends, and a      *)
(*       failed create leaves the store as it was.                           *)
(*  C24: list / deploy-status answers equal the reference queries.           *)
(*  REF: any other deviation from the reference (diagnostic, no verdict).    *)
(* A run is judged up to its first divergence (afterwards the stores are in  *)
(* different states and everything differs).                                 *)
EXTENDS Store, TraceBase
VARIABLES l, prevE, prevR, diverged, offE, offR
tvars == <<svars, hist, l, prevE, prevR, diverged, offE, offR>>

SetEq(seq, S) == Len(seq) = Cardinality(S) /\ \A i \in 1..Len(seq) : seq[i] \in S
Tag(K) == {k[2] \o "@" \o k[1] : k \in K}
ListEq(seq, K) == IF Dangling(K) THEN seq = <<"!err">> ELSE SetEq(seq, Tag(K))
SizeEq(sz, K, lim) == LET m == IF Cardinality(K) < lim THEN Cardinality(K) ELSE lim IN
                      IF Dangling(K) THEN sz \in {-1, m} ELSE sz = m
OkStr(b) == IF b THEN "ok" ELSE "err"

\* the read-back snapshot s equals the projection of the reference state (primed = after the call)
PodsOK(s) == SetEq(s.pods, pods')
PodOK(s) == \A p \in {"p1", "p2"} :
    LET N == {n \in Dom(nodes') : nodes'[n].pod = p} IN
    /\ s.pod[p].get = OkStr(p \in pods')
    /\ SetEq(s.pod[p].all, N)
    /\ SetEq(s.pod[p].up, {n \in N : ~nodes'[n].bypass})
    /\ SetEq(s.pod[p].labelled, {n \in N : nodes'[n].lab = "k"})
NodeOK(s) == \A n \in {"n1", "n2", "n3"} :
    LET r == s.node[n]
        K == {k \in Dom(widx') : k[1] = n} IN
    /\ IF n \in Dom(nodes') THEN r.get = "ok" /\ r.pod = nodes'[n].pod /\ r.bypass = nodes'[n].bypass /\ r.cert = nodes'[n].cert
                            ELSE r.get = "err" /\ r.pod = "" /\ r.bypass = FALSE /\ r.cert = FALSE
    /\ r.status = OkStr(n \in nstat')
    /\ IF K = {} THEN r.workloads = <<>> ELSE IF n \notin Dom(nodes') THEN r.workloads = <<"!err">> ELSE SetEq(r.workloads, Tag(K))
WlOK(s) == \A w \in {"w1", "w2", "w3", "w4"} :
    LET r == s.wl[w] IN
    IF w \in Dom(winfo') /\ winfo'[w].node \in Dom(nodes')
    THEN r.get = "ok" /\ r.node = winfo'[w].node /\ r.updated = winfo'[w].upd
         /\ r.status = (IF <<winfo'[w].node, w>> \in wstat' THEN "set" ELSE "none")
    ELSE r.get = "err" /\ r.node = "" /\ r.updated = FALSE /\ r.status = "none"
PairsP(a, e, n) == {k \in Dom(widx') : (a = "" \/ (AppOf(k[2]) = a /\ (e = "" \/ (EntryOf(k[2]) = e /\ (n = "" \/ k[1] = n)))))}
DanglingP(K) == \E k \in K : k[1] \notin Dom(nodes')
ListEqP(seq, K) == IF DanglingP(K) THEN seq = <<"!err">> ELSE SetEq(seq, Tag(K))
SizeEqP(sz, K, lim) == LET m == IF Cardinality(K) < lim THEN Cardinality(K) ELSE lim IN
                       IF DanglingP(K) THEN sz \in {-1, m} ELSE sz = m
ListOK(s) ==
    /\ ListEqP(s.list.a, PairsP("a", "", "")) /\ ListEqP(s.list.ax, PairsP("a", "x", "")) /\ ListEqP(s.list.axn1, PairsP("a", "x", "n1"))
    /\ ListEqP(s.list.b, PairsP("a2", "", "")) /\ ListEqP(s.list.ay, PairsP("a", "x2", ""))
    /\ SizeEqP(s.list.aLimit1, PairsP("a", "", ""), 1) /\ SizeEqP(s.list.aLimit2, PairsP("a", "", ""), 2)
ProcOnP(a, e, n) == LET K == {k \in Dom(proc') : k[1] = a \o "/" \o e /\ k[2] = n}
                        RECURSIVE S(_)
                        S(X) == IF X = {} THEN 0 ELSE LET x == CHOOSE y \in X : TRUE IN proc'[x] + S(X \ {x})
                    IN S(K)
RowOK(row, a, e) == /\ Len(row) = 4 /\ row[4] = 0
                    /\ \A i \in 1..3 : LET n == <<"n1", "n2", "n3">>[i] IN row[i] = Cardinality(PairsP(a, e, n)) + ProcOnP(a, e, n)
DeployOK(s) == RowOK(s.deploy.ax, "a", "x") /\ RowOK(s.deploy.ay, "a", "x2") /\ RowOK(s.deploy.bx, "a2", "x")

FirstBad(s) == IF ~PodsOK(s) THEN "pods" ELSE IF ~PodOK(s) THEN "pod" ELSE IF ~NodeOK(s) THEN "node" ELSE IF ~WlOK(s) THEN "wl"
               ELSE IF ~ListOK(s) THEN "list" ELSE IF ~DeployOK(s) THEN "deploy" ELSE "none"
RefProp(part) == IF part \in {"list", "deploy"} THEN "C24" ELSE "REF"

Parts == <<"pods", "pod", "node", "wl", "list", "deploy">>
FirstDiff(a, b) == LET D == {i \in 1..Len(Parts) : a[Parts[i]] # b[Parts[i]]} IN
                   IF D = {} THEN "none" ELSE Parts[CHOOSE i \in D : \A j \in D : i <= j]
Creates == {"AddPod", "AddNode", "AddWorkload", "CreateProc"}
OpTag(o) == o.op \o (IF o.op = "AddWorkload" /\ o.c # "" THEN "+marker" ELSE "")
                 \o (IF o.op \in {"SetNodeStatus", "SetWorkloadStatus"} THEN (IF o.n = 0 THEN "/ttl0" ELSE IF o.n < 0 THEN "/ttl-" ELSE "/ttl+") ELSE "")

TraceInit == SInit /\ hist = <<>> /\ l = 1 /\ prevE = <<>> /\ prevR = <<>> /\ diverged = FALSE /\ offE = FALSE /\ offR = FALSE
RefCheck(off, b, e, cls, snap) ==
    IF off THEN TRUE
    ELSE /\ Report(cls = Class(e.op), "REF", l, "result/" \o b \o "/" \o OpTag(e.op) \o "/got-" \o cls \o "/ref-" \o Class(e.op))
         /\ LET p == FirstBad(snap) IN Report(p = "none", RefProp(p), l, "ref-snapshot/" \o b \o "/" \o OpTag(e.op) \o "/" \o p)
TraceNext ==
    /\ l <= Len(Trace)
    /\ UNCHANGED hist
    /\ LET e == Trace[l] IN
       CASE e.ev = "StoreRun" ->
              /\ pods' = {} /\ nodes' = <<>> /\ winfo' = <<>> /\ widx' = <<>> /\ wstat' = {} /\ nstat' = {} /\ proc' = <<>>
              /\ Report(e.snapE = e.snapR, "C23", l, "initial/snapshot/" \o FirstDiff(e.snapE, e.snapR))
              /\ Report(FirstBad(e.snapE) = "none", "REF", l, "initial/etcd/" \o FirstBad(e.snapE))
              /\ Report(FirstBad(e.snapR) = "none", "REF", l, "initial/redis/" \o FirstBad(e.snapR))
              /\ prevE' = e.snapE /\ prevR' = e.snapR /\ diverged' = FALSE /\ offE' = FALSE /\ offR' = FALSE
         [] e.ev = "StoreOp" ->
              /\ Apply(e.op)
              /\ (IF diverged THEN TRUE ELSE Report(e.classE = e.classR, "C23", l, OpTag(e.op) \o "/result/etcd-" \o e.classE \o "/redis-" \o e.classR))
              /\ (IF diverged \/ e.classE # e.classR THEN TRUE ELSE Report(e.snapE = e.snapR, "C23", l, OpTag(e.op) \o "/snapshot/" \o FirstDiff(e.snapE, e.snapR)))
              /\ (IF diverged THEN TRUE ELSE Report((e.op.op \in Creates /\ e.classE = "err") => e.snapE = prevE, "C23", l,
                                    "failed-create-changed-store/etcd/" \o OpTag(e.op) \o "/" \o FirstDiff(e.snapE, prevE)))
              /\ (IF diverged THEN TRUE ELSE Report((e.op.op \in Creates /\ e.classR = "err") => e.snapR = prevR, "C23", l,
                                    "failed-create-changed-store/redis/" \o OpTag(e.op) \o "/" \o FirstDiff(e.snapR, prevR)))
              /\ RefCheck(offE, "etcd", e, e.classE, e.snapE)
              /\ RefCheck(offR, "redis", e, e.classR, e.snapR)
              /\ prevE' = e.snapE /\ prevR' = e.snapR
              /\ diverged' = (diverged \/ e.classE # e.classR \/ e.snapE # e.snapR)
              /\ offE' = (offE \/ e.classE # Class(e.op) \/ FirstBad(e.snapE) # "none")
              /\ offR' = (offR \/ e.classR # Class(e.op) \/ FirstBad(e.snapR) # "none")
    /\ l' = l + 1
TraceSpec == TraceInit /\ [][TraceNext]_tvars
TraceAccepted == IF TLCGet("stats").diameter - 1 = Len(Trace)
                 THEN PrintT(<<"ACCEPTED", Len(Trace)>>)
                 ELSE PrintT(<<"REJECTED", TLCGet("stats").diameter - 1, Len(Trace)>>)
=============================================================================
