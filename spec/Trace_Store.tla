----------------------------- MODULE Trace_Store -----------------------------
(* Judges store histories executed on both backends.  Each StoreOp event     *)
(* carries the operation, the result class and a read-back snapshot of the   *)
(* etcd store (classE, snapE) and of the Redis store (classR, snapR).        *)
(* C23: same result, same observable metadata, and a failed create leaves    *)
(* the store as it was.  A run is judged up to its first divergence (after   *)
(* it the two stores are in different states and everything differs).        *)
EXTENDS Integers, Sequences, FiniteSets, TLC, TraceBase
VARIABLES l, prevE, prevR, diverged
tvars == <<l, prevE, prevR, diverged>>
Parts == <<"pods", "pod", "node", "wl", "list", "deploy">>
FirstDiff(a, b) == LET D == {i \in 1..Len(Parts) : a[Parts[i]] # b[Parts[i]]} IN
                   IF D = {} THEN "none" ELSE Parts[CHOOSE i \in D : \A j \in D : i <= j]
Creates == {"AddPod", "AddNode", "AddWorkload", "CreateProc"}

TraceInit == l = 1 /\ prevE = <<>> /\ prevR = <<>> /\ diverged = FALSE
TraceNext ==
    /\ l <= Len(Trace)
    /\ LET e == Trace[l] IN
       CASE e.ev = "StoreRun" ->
              /\ Report(e.snapE = e.snapR, "C23", l, "initial/snapshot/" \o FirstDiff(e.snapE, e.snapR))
              /\ prevE' = e.snapE /\ prevR' = e.snapR /\ diverged' = FALSE
         [] e.ev = "StoreOp" ->
              /\ (IF diverged THEN TRUE ELSE Report(e.classE = e.classR, "C23", l, e.op.op \o "/result/etcd-" \o e.classE \o "/redis-" \o e.classR))
              /\ (IF diverged THEN TRUE ELSE Report(e.snapE = e.snapR, "C23", l, e.op.op \o "/snapshot/" \o FirstDiff(e.snapE, e.snapR)))
              /\ (IF diverged THEN TRUE ELSE Report((e.op.op \in Creates /\ e.classE = "err") => e.snapE = prevE, "C23", l,
                                    "failed-create-changed-store/etcd/" \o e.op.op \o "/" \o FirstDiff(e.snapE, prevE)))
              /\ (IF diverged THEN TRUE ELSE Report((e.op.op \in Creates /\ e.classR = "err") => e.snapR = prevR, "C23", l,
                                    "failed-create-changed-store/redis/" \o e.op.op \o "/" \o FirstDiff(e.snapR, prevR)))
              /\ prevE' = e.snapE /\ prevR' = e.snapR
              /\ diverged' = (diverged \/ e.classE # e.classR \/ e.snapE # e.snapR)
    /\ l' = l + 1
TraceSpec == TraceInit /\ [][TraceNext]_tvars
TraceAccepted == IF TLCGet("stats").diameter - 1 = Len(Trace)
                 THEN PrintT(<<"ACCEPTED", Len(Trace)>>)
                 ELSE PrintT(<<"REJECTED", TLCGet("stats").diameter - 1, Len(Trace)>>)
=============================================================================
