------------------------------- MODULE MC_Rpc -------------------------------
EXTENDS Rpc, Json, IOUtils
CONSTANTS Users, Passwords, MaxLives, MsgCounts, Maxes, CancelAts, Methods, Mode
Lives == UNION {[1..n -> [msgs : MsgCounts, end : {"err", "eof", "srvcancel"}]] : n \in 1..MaxLives}
AuthInputs == [srvU : Users, srvP : Passwords, cliU : Users, cliP : Passwords]
RetryInputs == [method : Methods, lives : Lives, max : Maxes, cancelAt : CancelAts]
\* passwords that differ by case, contain blanks and punctuation, and pairs that URL-style decoding would identify ("a+b" / "a b", "a%2Bb" / "a+b", "a%20b" / "a b")
\* ... and two long token-style passwords that differ only in their last character (beyond any fixed-size buffer)
PwDef == {"", "pw", "Pw", "p w!", "a+b", "a b", "a%2Bb", "a%20b",
          "0123456789abcdef0123456789abcdef0123456789abcdef0123456789abcdeX", "0123456789abcdef0123456789abcdef0123456789abcdef0123456789abcdeY"}
CancelDef == {-1, 0, 1, 2}
CancelQuick == {-1, 1}
VARIABLE inp
Init == inp \in (IF Mode = "auth" THEN AuthInputs ELSE RetryInputs)
Spec == Init /\ [][UNCHANGED inp]_inp
Emit == PrintT(<<"INPUT", ToJson(inp)>>)
\* design sanity: a client configured like the server is accepted
SameCredsAccepted == Mode = "auth" => ((inp.srvU = inp.cliU /\ inp.srvP = inp.cliP) => Accept(inp.srvU, inp.srvP, inp.cliU, inp.cliP))
=============================================================================
