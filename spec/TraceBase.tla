----------------------------- MODULE TraceBase -----------------------------
(* Shared plumbing of all trace specifications.                            *)
(*  - the trace is an ndjson file named by the environment variable         *)
(*    VERIF_TRACE, one event per line;                                      *)
(*  - a property violation found in a trace state is REPORTED (one JSON     *)
(*    line on stdout, prefixed VIOL) instead of stopping TLC, so one run    *)
(*    judges every event of every concatenated trace;                       *)
(*  - acceptance is the postcondition "every line was consumed".            *)
EXTENDS Integers, Sequences, TLC, Json, IOUtils

Trace == ndJsonDeserialize(IOEnv.VERIF_TRACE)

\* Report(cond, rec): TRUE always; prints rec when cond is FALSE
Report(ok, prop, line, sig) ==
    IF ok THEN TRUE
    ELSE PrintT(<<"VIOL", ToJson([property |-> prop, line |-> line, sig |-> sig])>>)

Has(r, f) == f \in DOMAIN r
=============================================================================
