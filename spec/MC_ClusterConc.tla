--------------------------- MODULE MC_ClusterConc ---------------------------
EXTENDS ClusterConc, Json, IOUtils
\* every terminal state prints its scenario and whether the referential predicates hold in it
Emit == Quiescent => PrintT(<<"INPUT", ToJson([pre |-> pair.pre, a |-> pair.A.kind, b |-> pair.B.kind, outcome |-> Which])>>)
\* operations that never touch each other's check-then-act windows: the model must find them race-free
SafePair == pair.A.kind \in {"addpod", "remove"} \/ pair.B.kind \in {"addpod", "remove"} \/ (pair.A.kind = pair.B.kind /\ pair.A.kind # "addnode")
SafeReferential == (Quiescent /\ SafePair) => RefOK
\* usage accounting is exact whenever the referential predicates hold (everything that touches usage runs under the pod lock)
UsageExact == (Quiescent /\ RefOK) => UsageOK
=============================================================================
