----------------------------- MODULE MC_Selfmon -----------------------------
EXTENDS Selfmon, Json, IOUtils
Emit == (Len(hist) = MaxOps) => PrintT(<<"INPUT", ToJson([ops |-> hist])>>)
View == <<alive, wls, watcher, pending, scanned, Len(hist)>>
=============================================================================
