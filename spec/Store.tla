-------------------------------- MODULE Store --------------------------------
(***************************************************************************)
(* The metadata store API (store/store.go; store/etcdv3, store/redis) as a *)
(* reference state machine: pods, nodes, workloads (with their three key   *)
(* families collapsed into one record), processing markers, deploy status, *)
(* and the list / count queries.  Properties C23 (both backends behave     *)
(* alike, failed creates change nothing), C24 (queries isolated per        *)
(* application / entrypoint / node), C13's counting rule.                  *)
(*                                                                         *)
(*   pods   : set of pod names                                             *)
(*   nodes  : node name -> [pod, bypass]                                   *)
(*   wl     : workload id -> [app, entry, node]                            *)
(*   proc   : <<app, entry, node, ident>> -> count                         *)
(* Every API call is one action with its precondition for success; a call  *)
(* whose precondition fails returns an error and leaves the state unchanged*)
(* (CreateIsAtomic).  Where the two backends disagree today the reference  *)
(* follows etcd, the default store.                                        *)
(***************************************************************************)
EXTENDS Integers, Sequences, FiniteSets, TLC

CONSTANTS Pods, Nodes, Wls, Apps, Entries, Idents, MaxOps
AppOf(w) == IF w = "w4" THEN "b" ELSE "a"
EntryOf(w) == IF w = "w3" THEN "y" ELSE "x"

VARIABLES pods, nodes, wl, proc, hist
vars == <<pods, nodes, wl, proc, hist>>
Dom(f) == DOMAIN f
Log(rec) == hist' = Append(hist, rec)
Drop(f, k) == [x \in DOMAIN f \ {k} |-> f[x]]
Put(f, k, v) == [x \in DOMAIN f \cup {k} |-> IF x = k THEN v ELSE f[x]]

Init == pods = {} /\ nodes = <<>> /\ wl = <<>> /\ proc = <<>> /\ hist = <<>>

NodesOfPod(p) == {n \in Dom(nodes) : nodes[n].pod = p}
\* the reference result of every call: TRUE = ok
OkAddPod(p) == p \notin pods
OkRemovePod(p) == p \in pods /\ NodesOfPod(p) = {}
OkAddNode(n, p) == p \in pods /\ n \notin Dom(nodes)
OkAddWorkload(w, n, k) == w \notin Dom(wl) /\ (k # "" => <<AppOf(w), EntryOf(w), n, k>> \in Dom(proc))
OkUpdateWorkload(w, n) == w \in Dom(wl) /\ wl[w].node = n
OkCreateProc(key) == key \notin Dom(proc)

AddPod(p) == /\ IF OkAddPod(p) THEN pods' = pods \cup {p} ELSE UNCHANGED pods
             /\ UNCHANGED <<nodes, wl, proc>> /\ Log([op |-> "AddPod", a |-> p, b |-> "", c |-> "", n |-> 0])
RemovePod(p) == /\ IF OkRemovePod(p) THEN pods' = pods \ {p} ELSE UNCHANGED pods
                /\ UNCHANGED <<nodes, wl, proc>> /\ Log([op |-> "RemovePod", a |-> p, b |-> "", c |-> "", n |-> 0])
AddNode(n, p, lab) == /\ IF OkAddNode(n, p) THEN nodes' = Put(nodes, n, [pod |-> p, bypass |-> FALSE]) ELSE UNCHANGED nodes
                      /\ UNCHANGED <<pods, wl, proc>> /\ Log([op |-> "AddNode", a |-> n, b |-> p, c |-> lab, n |-> 0])
RemoveNode(n) == /\ nodes' = IF n \in Dom(nodes) THEN Drop(nodes, n) ELSE nodes
                 /\ UNCHANGED <<pods, wl, proc>> /\ Log([op |-> "RemoveNode", a |-> n, b |-> "", c |-> "", n |-> 0])
SetBypass(n, v) == /\ n \in Dom(nodes) /\ nodes' = [nodes EXCEPT ![n].bypass = (v = 1)]
                   /\ UNCHANGED <<pods, wl, proc>> /\ Log([op |-> "SetBypass", a |-> n, b |-> "", c |-> "", n |-> v])
AddWorkload(w, n, k) ==
    /\ IF OkAddWorkload(w, n, k)
       THEN /\ wl' = Put(wl, w, [app |-> AppOf(w), entry |-> EntryOf(w), node |-> n])
            /\ proc' = IF k = "" THEN proc ELSE [proc EXCEPT ![<<AppOf(w), EntryOf(w), n, k>>] = @ - 1]
       ELSE UNCHANGED <<wl, proc>>
    /\ UNCHANGED <<pods, nodes>> /\ Log([op |-> "AddWorkload", a |-> w, b |-> n, c |-> k, n |-> 0])
UpdateWorkload(w, n) == /\ UNCHANGED <<pods, nodes, wl, proc>> /\ Log([op |-> "UpdateWorkload", a |-> w, b |-> n, c |-> "", n |-> 0])
RemoveWorkload(w, n) == /\ wl' = IF w \in Dom(wl) /\ wl[w].node = n THEN Drop(wl, w) ELSE wl
                        /\ UNCHANGED <<pods, nodes, proc>> /\ Log([op |-> "RemoveWorkload", a |-> w, b |-> n, c |-> "", n |-> 0])
CreateProc(a, e, n, k, cnt) ==
    /\ IF OkCreateProc(<<a, e, n, k>>) THEN proc' = Put(proc, <<a, e, n, k>>, cnt) ELSE UNCHANGED proc
    /\ UNCHANGED <<pods, nodes, wl>> /\ Log([op |-> "CreateProc", a |-> a \o "/" \o e, b |-> n, c |-> k, n |-> cnt])
DeleteProc(a, e, n, k) ==
    /\ proc' = IF <<a, e, n, k>> \in Dom(proc) THEN Drop(proc, <<a, e, n, k>>) ELSE proc
    /\ UNCHANGED <<pods, nodes, wl>> /\ Log([op |-> "DeleteProc", a |-> a \o "/" \o e, b |-> n, c |-> k, n |-> 0])
\* status reports change no abstract state here (their lifetime is the subject of StoreStatus.tla)
SetNodeStatus(n, ttl) == UNCHANGED <<pods, nodes, wl, proc>> /\ Log([op |-> "SetNodeStatus", a |-> n, b |-> "", c |-> "", n |-> ttl])
SetWlStatus(w, n, ttl) == UNCHANGED <<pods, nodes, wl, proc>> /\ Log([op |-> "SetWorkloadStatus", a |-> w, b |-> n, c |-> "", n |-> ttl])

\* Enabling conditions only bias the generated histories towards meaningful calls (a few calls on
\* missing entities stay enabled on purpose); they are not preconditions of the API.
Some(n) == n \in Dom(nodes) \/ n = "n1"
Next == /\ Len(hist) < MaxOps
        /\ \/ \E p \in Pods : AddPod(p) \/ RemovePod(p)
           \/ \E n \in Nodes, p \in Pods, lab \in {"", "k"} : (p \in pods \/ p = "p1") /\ AddNode(n, p, lab)
           \/ \E n \in Nodes : Some(n) /\ (RemoveNode(n) \/ SetBypass(n, 0) \/ SetBypass(n, 1) \/ SetNodeStatus(n, 5) \/ SetNodeStatus(n, -1))
           \/ \E w \in Wls, n \in Nodes :
                 \/ Some(n) /\ (AddWorkload(w, n, "") \/ \E k \in Idents : AddWorkload(w, n, k))
                 \/ (w \in Dom(wl) \/ w = "w1") /\ Some(n) /\ (UpdateWorkload(w, n) \/ RemoveWorkload(w, n) \/ SetWlStatus(w, n, 0) \/ SetWlStatus(w, n, 5))
           \/ \E a \in Apps, e \in Entries, n \in Nodes, k \in Idents :
                 Some(n) /\ a = "a" /\ (CreateProc(a, e, n, k, 2) \/ (<<a, e, n, k>> \in Dom(proc) /\ DeleteProc(a, e, n, k)))
Spec == Init /\ [][Next]_vars

(* ---- queries (C24) ---- *)
Match(w, a, e, n) == (a = "" \/ (wl[w].app = a /\ (e = "" \/ (wl[w].entry = e /\ (n = "" \/ wl[w].node = n)))))
List(a, e, n) == {w \in Dom(wl) : Match(w, a, e, n)}
DeployStatus(a, e) == [n \in {wl[w].node : w \in List(a, e, "")} \cup {k[3] : k \in {x \in Dom(proc) : x[1] = a /\ x[2] = e}} |->
                          Cardinality(List(a, e, n)) + 0]
(* ---- invariants of the reference ---- *)
NodesInPods == \A n \in Dom(nodes) : nodes[n].pod \in pods
=============================================================================
