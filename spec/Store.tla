-------------------------------- MODULE Store --------------------------------
(***************************************************************************)
(* The metadata store API (store/store.go; store/etcdv3, store/redis) as a *)
(* reference state machine at the grain of the KEY FAMILIES the code       *)
(* writes (store/etcdv3/mercury.go):                                       *)
(*   pods   : /pod/info/<p>                                                *)
(*   nodes  : /node/<n> and /node/<pod>:pod/<n> (always written together)  *)
(*            + certificate keys, n -> [pod, bypass, lab, cert]            *)
(*   winfo  : /workloads/<id>                  id -> [node, upd]           *)
(*   widx   : /node/<n>:workloads/<id> and /deploy/<app>/<entry>/<n>/<id>  *)
(*            (always written together)        <<n,id>> -> [node, upd]     *)
(*   wstat  : /status/<app>/<entry>/<n>/<id>   set of <<n,id>>             *)
(*   nstat  : /status:node/<n>                 set of n                    *)
(*   proc   : /processing/<app>/<entry>/<n>/<ident> -> count               *)
(* Every API call is one action; Class(o) is the reference result computed *)
(* in the pre-state.  A call whose precondition fails returns an error and *)
(* leaves the state unchanged (CreateIsAtomic).  Where the two backends    *)
(* disagree the reference follows etcd, the default store.                 *)
(* Properties: C23 (both backends = this reference, failed creates change  *)
(* nothing), C24 (List / DeployStatus are exact per app, entry, node),     *)
(* C13's counting rule (deployed + processing).                            *)
(***************************************************************************)
EXTENDS Integers, Sequences, FiniteSets, TLC

CONSTANTS Pods, Nodes, Wls, Idents, MaxOps
AppOf(w) == IF w = "w4" THEN "a2" ELSE "a"        \* "a" is a string prefix of "a2", "x" of "x2":
EntryOf(w) == IF w = "w3" THEN "x2" ELSE "x"      \* key-prefix queries must not mix them up

VARIABLES pods, nodes, winfo, widx, wstat, nstat, proc, hist
svars == <<pods, nodes, winfo, widx, wstat, nstat, proc>>
vars == <<svars, hist>>
Dom(f) == DOMAIN f
Drop(f, k) == [x \in DOMAIN f \ {k} |-> f[x]]
Put(f, k, v) == [x \in DOMAIN f \cup {k} |-> IF x = k THEN v ELSE f[x]]

SInit == pods = {} /\ nodes = <<>> /\ winfo = <<>> /\ widx = <<>> /\ wstat = {} /\ nstat = {} /\ proc = <<>>
Init == SInit /\ hist = <<>>

NodesOfPod(p) == {n \in Dom(nodes) : nodes[n].pod = p}
PKey(o) == <<o.a, o.b, o.c>>          \* processing key: "app/entry", node, ident
WKey(w, n, k) == <<AppOf(w) \o "/" \o EntryOf(w), n, k>>

(* ---- reference result of a call o = [op, a, b, c, n], TRUE = ok ---- *)
Ok(o) ==
  CASE o.op = "AddPod"            -> o.a \notin pods
    [] o.op = "RemovePod"         -> o.a \in pods /\ NodesOfPod(o.a) = {}
    [] o.op = "AddNode"           -> o.b \in pods /\ o.a \notin Dom(nodes)
    [] o.op = "RemoveNode"        -> TRUE
    [] o.op = "SetBypass"         -> o.a \in Dom(nodes)
    [] o.op = "SetNodeStatus"     -> IF o.n = 0 THEN FALSE ELSE IF o.n < 0 THEN TRUE ELSE o.a \in Dom(nodes)
    [] o.op = "AddWorkload"       -> IF o.c = "" THEN o.a \notin Dom(winfo) /\ <<o.b, o.a>> \notin Dom(widx)
                                                ELSE WKey(o.a, o.b, o.c) \in Dom(proc)
    [] o.op = "UpdateWorkload"    -> o.a \in Dom(winfo) /\ <<o.b, o.a>> \in Dom(widx)
    [] o.op = "RemoveWorkload"    -> TRUE
    [] o.op = "SetWorkloadStatus" -> IF o.n = 0 THEN TRUE ELSE o.a \in Dom(winfo)
    [] o.op = "CreateProc"        -> PKey(o) \notin Dom(proc)
    [] o.op = "DeleteProc"        -> TRUE
Class(o) == IF Ok(o) THEN "ok" ELSE "err"

(* ---- effect of a successful call ---- *)
Effect(o) ==
  CASE o.op = "AddPod"     -> pods' = pods \cup {o.a} /\ UNCHANGED <<nodes, winfo, widx, wstat, nstat, proc>>
    [] o.op = "RemovePod"  -> pods' = pods \ {o.a} /\ UNCHANGED <<nodes, winfo, widx, wstat, nstat, proc>>
    [] o.op = "AddNode"    -> nodes' = Put(nodes, o.a, [pod |-> o.b, bypass |-> FALSE, lab |-> o.c, cert |-> o.c # ""])
                              /\ UNCHANGED <<pods, winfo, widx, wstat, nstat, proc>>
    [] o.op = "RemoveNode" -> nodes' = (IF o.a \in Dom(nodes) THEN Drop(nodes, o.a) ELSE nodes)
                              /\ UNCHANGED <<pods, winfo, widx, wstat, nstat, proc>>
    [] o.op = "SetBypass"  -> nodes' = [nodes EXCEPT ![o.a].bypass = (o.n = 1)]
                              /\ UNCHANGED <<pods, winfo, widx, wstat, nstat, proc>>
    [] o.op = "SetNodeStatus" -> nstat' = (IF o.n < 0 THEN nstat \ {o.a} ELSE nstat \cup {o.a})
                              /\ UNCHANGED <<pods, nodes, winfo, widx, wstat, proc>>
    [] o.op = "AddWorkload" ->
          /\ winfo' = Put(winfo, o.a, [node |-> o.b, upd |-> FALSE])
          /\ widx' = Put(widx, <<o.b, o.a>>, [node |-> o.b, upd |-> FALSE])
          /\ proc' = (IF o.c = "" THEN proc ELSE [proc EXCEPT ![WKey(o.a, o.b, o.c)] = @ - 1])
          /\ UNCHANGED <<pods, nodes, wstat, nstat>>
    [] o.op = "UpdateWorkload" ->
          /\ winfo' = [winfo EXCEPT ![o.a] = [node |-> o.b, upd |-> TRUE]]
          /\ widx' = [widx EXCEPT ![<<o.b, o.a>>] = [node |-> o.b, upd |-> TRUE]]
          /\ UNCHANGED <<pods, nodes, wstat, nstat, proc>>
    [] o.op = "RemoveWorkload" ->    \* deletes the info key whatever node the caller names
          /\ winfo' = (IF o.a \in Dom(winfo) THEN Drop(winfo, o.a) ELSE winfo)
          /\ widx' = (IF <<o.b, o.a>> \in Dom(widx) THEN Drop(widx, <<o.b, o.a>>) ELSE widx)
          /\ wstat' = wstat \ {<<o.b, o.a>>}
          /\ UNCHANGED <<pods, nodes, nstat, proc>>
    [] o.op = "SetWorkloadStatus" -> wstat' = wstat \cup {<<o.b, o.a>>}
                              /\ UNCHANGED <<pods, nodes, winfo, widx, nstat, proc>>
    [] o.op = "CreateProc" -> proc' = Put(proc, PKey(o), o.n) /\ UNCHANGED <<pods, nodes, winfo, widx, wstat, nstat>>
    [] o.op = "DeleteProc" -> proc' = (IF PKey(o) \in Dom(proc) THEN Drop(proc, PKey(o)) ELSE proc)
                              /\ UNCHANGED <<pods, nodes, winfo, widx, wstat, nstat>>

\* one API call: a failed call changes nothing (CreateIsAtomic)
Apply(o) == IF Ok(o) THEN Effect(o) ELSE UNCHANGED svars

(* ---- history generation (MC_Store): enabling conditions only bias the generated   ---- *)
(* ---- histories towards meaningful calls; they are not preconditions of the API.   ---- *)
O(op, a, b, c, n) == [op |-> op, a |-> a, b |-> b, c |-> c, n |-> n]
Some(n) == n \in Dom(nodes) \/ n = "n1"
OpSpace ==
    {O("AddPod", p, "", "", 0) : p \in Pods} \cup {O("RemovePod", p, "", "", 0) : p \in Pods}
    \cup {O("AddNode", n, p, lab, 0) : n \in Nodes, p \in {q \in Pods : q \in pods \/ q = "p1"}, lab \in {"", "k"}}
    \cup UNION {{O("RemoveNode", n, "", "", 0), O("SetBypass", n, "", "", 0), O("SetBypass", n, "", "", 1),
                 O("SetNodeStatus", n, "", "", -1), O("SetNodeStatus", n, "", "", 0)} : n \in {m \in Nodes : Some(m)}}
    \* a heartbeat for an unrecorded node is where the backends are known to part: only late in a history
    \cup {O("SetNodeStatus", n, "", "", 600) : n \in {m \in Nodes : m \in Dom(nodes) \/ (m = "n1" /\ Len(hist) >= MaxOps - 2)}}
    \cup UNION {{O("AddWorkload", w, n, "", 0)} \cup {O("AddWorkload", w, n, k, 0) : k \in Idents} : w \in Wls, n \in {m \in Nodes : Some(m)}}
    \cup UNION {{O("UpdateWorkload", w, n, "", 0), O("RemoveWorkload", w, n, "", 0), O("SetWorkloadStatus", w, n, "", 0), O("SetWorkloadStatus", w, n, "", 600)}
                : w \in {v \in Wls : v \in Dom(winfo) \/ v = "w1"}, n \in {m \in Nodes : Some(m)}}
    \cup {O("CreateProc", "a/" \o e, n, k, c) : e \in {"x", "x2"}, n \in {m \in Nodes : Some(m)}, k \in Idents, c \in {1, 2}}
    \cup {O("DeleteProc", pk[1], pk[2], pk[3], 0) : pk \in Dom(proc)}
Next == Len(hist) < MaxOps /\ \E o \in OpSpace : Apply(o) /\ hist' = Append(hist, o)
Spec == Init /\ [][Next]_vars

(* ---- queries: what the read API must return in a state (C24, C13 counting rule) ---- *)
Pairs(a, e, n) == {k \in Dom(widx) : (a = "" \/ (AppOf(k[2]) = a /\ (e = "" \/ (EntryOf(k[2]) = e /\ (n = "" \/ k[1] = n)))))}
Dangling(K) == \E k \in K : k[1] \notin Dom(nodes)       \* a listed workload whose node is gone: the list call fails
ProcOn(a, e, n) == LET K == {k \in Dom(proc) : k[1] = a \o "/" \o e /\ k[2] = n} IN
                   IF K = {} THEN 0 ELSE LET RECURSIVE S(_)
                                             S(X) == IF X = {} THEN 0 ELSE LET x == CHOOSE y \in X : TRUE IN proc[x] + S(X \ {x})
                                         IN S(K)
DeployCount(a, e, n) == Cardinality(Pairs(a, e, n)) + ProcOn(a, e, n)
GetWl(w) == w \in Dom(winfo) /\ winfo[w].node \in Dom(nodes)

(* ---- invariants of the reference ---- *)
NodesInPods == \A n \in Dom(nodes) : nodes[n].pod \in pods     \* sequentially, RemovePod refuses a pod with nodes
IdxHasValue == \A k \in Dom(widx) : widx[k].node = k[1]
=============================================================================
