----------------------------- MODULE NodeSelect -----------------------------
(***************************************************************************)
(* C21: node selection.  The nodes an operation acts on under a filter     *)
(*   [pod, includes (a LIST, repeats and any order allowed), excludes,     *)
(*    labels, all]                                                         *)
(* are: the distinct nodes named in the include list, if there is one      *)
(* (a name that is not a node makes the operation fail); otherwise the     *)
(* nodes of the pod (of every pod if none is named) that carry the labels, *)
(* minus the excluded ones, minus nodes that are down or bypassed unless   *)
(* all nodes were requested.  A test (mock) node is up iff it is not       *)
(* bypassed; a real node is up iff it has a heartbeat status and is not    *)
(* bypassed.                                                               *)
(* C20 (part): the pod locks of the selected nodes are taken in ascending  *)
(* key order, each once.                                                   *)
(***************************************************************************)
EXTENDS Integers, Sequences, FiniteSets, TLC
CONSTANTS IncludeNames, MaxIncludes
VARIABLES f, q

Nd(name, pod, lab, bypass, test, alive) == [name |-> name, pod |-> pod, lab |-> lab, bypass |-> bypass, test |-> test, alive |-> alive]
\* label sets are named by a code: "" none, "k" {k=v}, "m" {m=""} (a marker: a key with an empty value), "km" both, "k0" {k=""}
LabSet(c) == CASE c = "" -> {} [] c = "k" -> {<<"k", "v">>} [] c = "m" -> {<<"m", "">>} [] c = "km" -> {<<"k", "v">>, <<"m", "">>}
               [] c = "k0" -> {<<"k", "">>}
Universe == {Nd("n1", "p1", "k", FALSE, TRUE, TRUE), Nd("n2", "p1", "", FALSE, TRUE, TRUE), Nd("n3", "p1", "", TRUE, TRUE, TRUE),
             Nd("n4", "p1", "k", FALSE, FALSE, FALSE), Nd("n5", "p1", "m", TRUE, FALSE, TRUE), Nd("n6", "p1", "km", FALSE, FALSE, TRUE),
             Nd("n2b", "p2", "k", FALSE, TRUE, TRUE)}
Names == {n.name : n \in Universe}
Up(n) == ~n.bypass /\ (n.test \/ n.alive)
Range(s) == {s[i] : i \in 1..Len(s)}
\* "error" when an included name is not a node
Select(x) == IF x.includes # <<>>
             THEN (IF Range(x.includes) \subseteq Names THEN Range(x.includes) ELSE {"!error"})
             ELSE {n.name : n \in {m \in Universe : /\ (x.pod = "" \/ m.pod = x.pod)
                                                    /\ LabSet(x.label) \subseteq LabSet(m.lab)            \* carries every requested label with the requested value
                                                    /\ m.name \notin Range(x.excludes)
                                                    /\ (x.all \/ Up(m))}}
PodsOf(S) == {n.pod : n \in {m \in Universe : m.name \in S}}

Seqs(S, k) == UNION {[1..i -> S] : i \in 0..k}
Filters == {[pod |-> "p1", includes |-> inc, excludes |-> <<>>, label |-> "", all |-> a] : inc \in Seqs(IncludeNames, MaxIncludes) \ {<<>>}, a \in {TRUE}}
           \cup {[pod |-> p, includes |-> <<>>, excludes |-> ex, label |-> lb, all |-> a] :
                    p \in {"p1", "p2", ""}, ex \in {<<>>, <<"n1">>, <<"n2", "n1">>, <<"zz">>}, lb \in {"", "k", "m", "km", "k0"}, a \in BOOLEAN}
Init == f \in Filters /\ q = 0
Next == q = 0 /\ q' = 1 /\ UNCHANGED f
Spec == Init /\ [][Next]_<<f, q>>
\* design sanity: a selection never contains a name twice (it is a set) and include lists are order-free
OrderFree == \A x \in Filters : \A y \in Filters : (Range(x.includes) = Range(y.includes) /\ x.includes # <<>> /\ y.includes # <<>>) => Select(x) = Select(y)
=============================================================================
