SPECIFICATION Spec
CONSTANTS
  StepRecovery = TRUE
  FixAfterRemove = TRUE
  RCrashes = 2
  Order <- Two
  MarkersFirst = TRUE
INVARIANTS CountInBounds ClosedClean RecoveredClean
PROPERTY Closes RecoveryEnds
CHECK_DEADLOCK FALSE
