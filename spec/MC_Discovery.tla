---------------------------- MODULE MC_Discovery ----------------------------
EXTENDS Discovery, Json, IOUtils
KindOK(s) == IF s = "s2" THEN "slow" ELSE "reader"
KindStalled(s) == IF s = "s2" THEN "stalled" ELSE "reader"
KindSim(s) == IF s = "s2" THEN "slow" ELSE IF s = "s4" THEN "stalled" ELSE "reader"
Emit == (Len(hist) = MaxOps) => PrintT(<<"INPUT", ToJson([ops |-> hist])>>)
=============================================================================
