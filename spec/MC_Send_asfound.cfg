SPECIFICATION Spec
CONSTANTS
  Targets = {"t1", "t2", "t3"}
  Behaviour <- BMixed
  Chunks = 5
  Cap = 2
  ReaderCloses = FALSE
INVARIANTS NoStuck ExactlyOneResult DeliveredAll
PROPERTY Finishes
CHECK_DEADLOCK FALSE
