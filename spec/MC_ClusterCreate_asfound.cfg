SPECIFICATION Spec
CONSTANTS
  Order <- Two
  MarkersFirst = FALSE
INVARIANTS CountInBounds ClosedClean RecoveredClean
PROPERTY Closes
CHECK_DEADLOCK FALSE
