SPECIFICATION Spec
CONSTANTS
  StepRecovery = FALSE
  FixAfterRemove = FALSE
  RCrashes = 0
  Order <- Two
  MarkersFirst = FALSE
INVARIANTS CountInBounds ClosedClean RecoveredClean
PROPERTY Closes
CHECK_DEADLOCK FALSE
