-------------------------- MODULE Trace_EngineCache --------------------------
(* Judges the engine-cache driver's schedules: the environment (reach) is      *)
(* replayed from the schedule; after every "wait" the observed entry must tell *)
(* the truth (EngineCache!TruthAfterWait).  Diagnostic (property id REF).      *)
EXTENDS Integers, Sequences, TLC, TraceBase
VARIABLES l
RECURSIVE ReachAfter(_, _, _)
ReachAfter(steps, i, r) == IF i = 0 THEN r ELSE
    LET prev == ReachAfter(steps, i - 1, r) IN
    IF steps[i].op = "up" THEN TRUE ELSE IF steps[i].op = "down" THEN FALSE ELSE prev
TraceInit == l = 1
TraceNext ==
    /\ l <= Len(Trace)
    /\ LET e == Trace[l] IN
       IF e.starved THEN TRUE
       ELSE \A i \in 1..Len(e.steps) :
              LET s == e.steps[i]  reach == ReachAfter(e.steps, i, TRUE) IN
              Report(s.op = "wait" => ((s.state = "ok" => reach) /\ (s.state = "err" => ~reach)), "REF", l,
                     "engine-cache-not-truthful-after-wait/" \o s.state \o (IF reach THEN "/engine-answers" ELSE "/engine-silent"))
    /\ l' = l + 1
TraceSpec == TraceInit /\ [][TraceNext]_l
TraceAccepted == IF TLCGet("stats").diameter - 1 = Len(Trace)
                 THEN PrintT(<<"ACCEPTED", Len(Trace)>>)
                 ELSE PrintT(<<"REJECTED", TLCGet("stats").diameter - 1, Len(Trace)>>)
=============================================================================
