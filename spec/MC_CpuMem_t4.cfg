SPECIFICATION MCSpec
CONSTANTS
  B = 10
  MaxShares <- MS_all
  NCores = {4}
  Kinds = {"free", "frag7", "full", "big"}
  Layouts = {"half"}
  MemUsedSet = {0, 2, 4}
  NumaUsedSet <- NU_all
  CpuSet = {5, 10, 12, 15, 20, 27}
  MemReqs = {0, 1, 2}
  UnboundCpu = {0}
INVARIANT InputsValid
CONSTRAINT EmitInputs
CHECK_DEADLOCK FALSE
