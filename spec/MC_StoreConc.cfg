SPECIFICATION MCSpec
CONSTANTS
  Pods = {"p1"}
  Nodes = {"n1"}
  Wls = {"w1", "w2"}
  Idents = {"i1"}
  MaxOps = 0
CONSTRAINT Emit
CHECK_DEADLOCK FALSE
