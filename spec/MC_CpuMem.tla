----------------------------- MODULE MC_CpuMem -----------------------------
(* Enumerates (node state, request) inputs for the cpumem plugin within the  *)
(* constants and prints each as JSON (tag INPUT) for the Go replayer.        *)
(* Per core the state is one of a few (capacity, used) kinds chosen so that  *)
(* the free pieces cover: nothing, a small fragment, a large fragment, one   *)
(* whole share, two whole shares (node added with share = 2B), and a core    *)
(* that is over-shared but partly used.                                      *)
EXTENDS CpuMemProps, Json, IOUtils

CONSTANTS B, MaxShares, NCores, Kinds, Layouts, MemUsedSet, NumaUsedSet, CpuSet, MemReqs, UnboundCpu

Core(k) == CASE k = "free"    -> <<B, 0>>
             [] k = "frag7"   -> <<B, 3>>
             [] k = "frag2"   -> <<B, B - 2>>
             [] k = "full"    -> <<B, B>>
             [] k = "big"     -> <<2 * B, 0>>
             [] k = "bigfrag" -> <<2 * B, B + 3>>

NumaOf(layout, n, c) == CASE layout = "none" -> 0
                          [] layout = "half" -> IF 2 * c <= n THEN 1 ELSE 2
                          [] layout = "one"  -> IF c = 1 THEN 1 ELSE 2

KindSeqs == UNION {[1..n -> Kinds] : n \in NCores}

NodeFor(ms, ks, layout, mu, nu) ==
    LET n == Len(ks) IN
    [B |-> B, ms |-> ms,
     cap |-> [c \in 1..n |-> Core(ks[c])[1]], used |-> [c \in 1..n |-> Core(ks[c])[2]],
     numa |-> [c \in 1..n |-> NumaOf(layout, n, c)],
     mem |-> 4, memUsed |-> mu,
     numaMem |-> IF layout = "none" THEN <<>> ELSE <<2, 2>>,
     numaMemUsed |-> IF layout = "none" THEN <<>> ELSE nu]

Nodes == {NodeFor(ms, ks, lay, mu, nu) :
            ms \in MaxShares, ks \in KindSeqs, lay \in Layouts, mu \in MemUsedSet, nu \in NumaUsedSet}
Good(n) ==
    /\ (n.numaMem = <<>>) => (n.numaMemUsed = <<0, 0>>)      \* one representative
    /\ (n.numaMem # <<>>) => (n.numaMemUsed[1] + n.numaMemUsed[2] <= n.memUsed)
    /\ (Len(n.cap) < 2) => (n.numaMem = <<>>)
GoodNodes == {n \in Nodes : Good(n)}
Fix(n) == IF n.numaMem = <<>> THEN [n EXCEPT !.numaMemUsed = <<>>] ELSE n

Requests == [bind : {TRUE}, cpu : CpuSet, memReq : MemReqs] \cup [bind : {FALSE}, cpu : UnboundCpu, memReq : MemReqs]

Inputs == {[B |-> n.B, ms |-> n.ms, cap |-> n.cap, used |-> n.used, numa |-> n.numa, mem |-> n.mem,
            memUsed |-> n.memUsed, numaMem |-> n.numaMem, numaMemUsed |-> n.numaMemUsed,
            bind |-> r.bind, cpu |-> r.cpu, memReq |-> r.memReq] : n \in {Fix(x) : x \in GoodNodes}, r \in Requests}

MS_quick == {-1, 1}
MS_all == {-1, 1, 2}
NU_quick == {<<0, 0>>, <<1, 0>>, <<0, 2>>}
NU_all == {<<0, 0>>, <<1, 0>>, <<2, 1>>, <<0, 2>>}

VARIABLE inp
MCInit == inp \in Inputs
MCNext == UNCHANGED inp
MCSpec == MCInit /\ [][MCNext]_inp
InputsValid == ValidNode(inp) /\ MemFits(inp)
EmitInputs == PrintT(<<"INPUT", ToJson(inp)>>)
=============================================================================
