------------------------------ MODULE MC_Engine ------------------------------
EXTENDS Engine, Json, IOUtils
(* bounded enumeration of parameter sets for the replayer *)
CONSTANTS Cpu100s, NCore, MemMiBs
Params == [cpu100 : Cpu100s, cores : [1..NCore -> BOOLEAN], numa : {0, 1}, memMiB : MemMiBs, remap : BOOLEAN]
\* what the resource plugin can produce: bound => cpu > 0; NUMA node only with a cpu map; remap only for unbound
Producible(p) == /\ (~NoCores(p) /\ ~p.remap) => p.cpu100 > 0
                 /\ NoCores(p) => p.numa = 0
VARIABLE inp
\* remap parameters are only ever sent to a running workload (update)
Init == inp \in UNION {{[op |-> o, p |-> q] : q \in {x \in Params : Producible(x) /\ (o = "create" => ~x.remap)}} : o \in {"create", "update"}}
Spec == Init /\ [][UNCHANGED inp]_inp
Emit == PrintT(<<"INPUT", ToJson(inp)>>)
=============================================================================
