--------------------------- MODULE MC_StoreStatus ---------------------------
EXTENDS StoreStatus, Json, IOUtils
Emit == (Len(hist) = MaxOps) => PrintT(<<"INPUT", ToJson([ops |-> hist])>>)
=============================================================================
