------------------------------ MODULE MC_Send ------------------------------
EXTENDS Send
BAll(t) == "all"
BMixed(t) == IF t = "t1" THEN "all" ELSE IF t = "t2" THEN "refuse" ELSE "abort"
=============================================================================
