------------------------------ MODULE Strategy ------------------------------
(***************************************************************************)
(* Step-machine transcription of strategy/*.go; the declarative meaning of *)
(* C01-C03 is in StrategyProps (shared with the trace specification).      *)
(***************************************************************************)
EXTENDS StrategyProps

(***************************************************************************)
(* The algorithms as a step machine.                                       *)
(*   pc = "start"  : argument checks (total < need, list lengths)          *)
(*   pc = "loop"   : one heap pop (AUTO/GLOBAL) or one slice visit         *)
(*   pc = "done"   : class/plan are the result                             *)
(* Heap order only guarantees that the popped element is minimal for the   *)
(* comparator, so the model pops ANY minimal element; sort.Slice with a    *)
(* comparator that is a strict weak order yields SOME order consistent     *)
(* with it, so the model visits ANY not-yet-visited element that no other  *)
(* unvisited element precedes.                                             *)
(***************************************************************************)
VARIABLES inp, pc, plan, left, cnt, cp, us, visited, class

vars == <<inp, pc, plan, left, cnt, cp, us, visited, class>>

NoPlan(n) == [i \in 1..n |-> -1]

InHeapAuto(i) == cp[i] > 0 /\ ~(inp.limit > 0 /\ cnt[i] >= inp.limit)
LessAuto(i, j) == cnt[i] < cnt[j] \/ (cnt[i] = cnt[j] /\ cp[i] > cp[j])
LessGlobal(i, j) == us[i] + inp.infos[i].r < us[j] + inp.infos[j].r
\* drained.go as written (C03 finding: not a strict weak order):
\*   LessDrainedBuggy(i, j) == cp[i] < cp[j] \/ us[i] > us[j]
LessDrained(i, j) == cp[i] < cp[j] \/ (cp[i] = cp[j] /\ us[i] > us[j])
LessEach(i, j) == cp[i] > cp[j]
LessFill(i, j) == cnt[i] > cnt[j] \/ (cnt[i] = cnt[j] /\ cp[i] > cp[j])

Start ==
    /\ pc = "start"
    /\ LET n == Len(inp.infos) L == LimitN(inp.infos, inp.limit) IN
       IF inp.s \in {"AUTO", "GLOBAL", "DRAINED"} /\ TotalOf(inp.infos) < inp.need
         THEN /\ pc' = "done" /\ class' = "insufficient"
              /\ UNCHANGED <<plan, left, cnt, cp, us, visited>>
       ELSE IF inp.s \in {"EACH", "FILL"} /\ n < L
         THEN /\ pc' = "done" /\ class' = "insufficient"
              /\ UNCHANGED <<plan, left, cnt, cp, us, visited>>
       ELSE IF inp.s = "EACH" /\
               Cardinality({i \in 1..n : inp.infos[i].cap >= inp.need}) < L
         THEN /\ pc' = "done" /\ class' = "insufficient"
              /\ UNCHANGED <<plan, left, cnt, cp, us, visited>>
       ELSE /\ pc' = "loop"
            /\ left' = IF inp.s \in {"EACH", "FILL"} THEN L ELSE inp.need
            /\ UNCHANGED <<plan, cnt, cp, us, visited, class>>
    /\ UNCHANGED inp

Bump(i) == [plan EXCEPT ![i] = Given(plan, i) + 1]

StepAuto ==
    /\ pc = "loop" /\ inp.s = "AUTO"
    /\ LET H == {i \in Idx(inp.infos) : InHeapAuto(i)} IN
       IF H = {} THEN /\ pc' = "done" /\ class' = "insufficient"
                      /\ plan' = NoPlan(Len(inp.infos))
                      /\ UNCHANGED <<left, cnt, cp, visited>>
       ELSE \E i \in H :
              /\ \A j \in H : ~LessAuto(j, i)
              /\ plan' = Bump(i)
              /\ left' = left - 1
              /\ cnt' = [cnt EXCEPT ![i] = @ + 1]
              /\ cp' = [cp EXCEPT ![i] = IF @ = INF THEN INF ELSE @ - 1]
              /\ IF left = 1 THEN pc' = "done" /\ class' = "plan"
                             ELSE UNCHANGED <<pc, class>>
              /\ UNCHANGED visited
    /\ UNCHANGED <<inp, us>>

StepGlobal ==
    /\ pc = "loop" /\ inp.s = "GLOBAL"
    /\ LET H == {i \in Idx(inp.infos) : cp[i] > 0} IN
       IF H = {} THEN /\ pc' = "done" /\ class' = "insufficient"
                      /\ plan' = NoPlan(Len(inp.infos))
                      /\ UNCHANGED <<left, us, cp>>
       ELSE \E i \in H :
              /\ \A j \in H : ~LessGlobal(j, i)
              /\ plan' = Bump(i)
              /\ left' = left - 1
              /\ us' = [us EXCEPT ![i] = @ + inp.infos[i].r]
              /\ cp' = [cp EXCEPT ![i] = IF @ = INF THEN INF ELSE @ - 1]
              /\ IF left = 1 THEN pc' = "done" /\ class' = "plan"
                             ELSE UNCHANGED <<pc, class>>
    /\ UNCHANGED <<inp, cnt, visited>>

\* visit the sorted slice front to back; `Less` is the sort comparator
NextInOrder(Less(_, _), i) ==
    /\ i \notin visited
    /\ \A j \in Idx(inp.infos) \ visited : ~Less(j, i)

StepDrained ==
    /\ pc = "loop" /\ inp.s = "DRAINED"
    /\ \E i \in Idx(inp.infos) :
         /\ NextInOrder(LessDrained, i)
         /\ visited' = visited \cup {i}
         /\ IF left < cp[i]
              THEN plan' = [plan EXCEPT ![i] = left] /\ left' = 0
              ELSE plan' = [plan EXCEPT ![i] = cp[i]] /\ left' = left - cp[i]
         /\ IF left' = 0 THEN pc' = "done" /\ class' = "plan"
                         ELSE UNCHANGED <<pc, class>>
    /\ UNCHANGED <<inp, cnt, cp, us>>

StepEach ==
    /\ pc = "loop" /\ inp.s = "EACH"
    /\ \E i \in Idx(inp.infos) :
         /\ NextInOrder(LessEach, i)
         /\ visited' = visited \cup {i}
         /\ plan' = [plan EXCEPT ![i] = Given(plan, i) + inp.need]
         /\ left' = left - 1
         /\ IF left = 1 THEN pc' = "done" /\ class' = "plan"
                        ELSE UNCHANGED <<pc, class>>
    /\ UNCHANGED <<inp, cnt, cp, us>>

StepFill ==
    /\ pc = "loop" /\ inp.s = "FILL"
    /\ IF visited = Idx(inp.infos)
         THEN /\ pc' = "done" /\ class' = "insufficient"
              /\ plan' = NoPlan(Len(inp.infos))
              /\ UNCHANGED <<left, visited>>
         ELSE \E i \in Idx(inp.infos) :
              /\ NextInOrder(LessFill, i)
              /\ visited' = visited \cup {i}
              /\ IF cnt[i] + cp[i] >= inp.need
                   THEN /\ plan' = [plan EXCEPT ![i] = Max2(inp.need - cnt[i], 0)]
                        /\ left' = left - 1
                        /\ IF left = 1
                             THEN /\ pc' = "done"
                                  /\ class' = IF PlanSum(plan') = 0 THEN "filled" ELSE "plan"
                             ELSE UNCHANGED <<pc, class>>
                   ELSE UNCHANGED <<plan, left, pc, class>>
    /\ UNCHANGED <<inp, cnt, cp, us>>

Next == Start \/ StepAuto \/ StepGlobal \/ StepDrained \/ StepEach \/ StepFill

InitFor(i) ==
    /\ inp = i
    /\ pc = "start"
    /\ plan = NoPlan(Len(i.infos))
    /\ left = 0
    /\ cnt = [k \in Idx(i.infos) |-> i.infos[k].count]
    /\ cp = [k \in Idx(i.infos) |-> i.infos[k].cap]
    /\ us = [k \in Idx(i.infos) |-> i.infos[k].u]
    /\ visited = {}
    /\ class = "running"

(***************************************************************************)
(* Design-level properties of the step machine.                            *)
(***************************************************************************)
ModelC01 == pc = "done" => C01ok(inp.s, inp.infos, inp.need, inp.limit, class, plan, 0)
ModelC02 == pc = "done" => C02ok(inp.s, inp.infos, inp.need, inp.limit, class, plan)
ModelC03 == pc = "done" => C03ok(inp.s, inp.infos, inp.need, inp.limit, class, plan)
\* every comparator handed to sort.Slice / heap must be a strict weak order
StrictWeak(Less(_, _), S) ==
    /\ \A a \in S : ~Less(a, a)
    /\ \A a, b \in S : Less(a, b) => ~Less(b, a)
    /\ \A a, b, c \in S : (Less(a, b) /\ Less(b, c)) => Less(a, c)
    /\ \A a, b, c \in S : (~Less(a, b) /\ ~Less(b, a) /\ ~Less(b, c) /\ ~Less(c, b))
                              => (~Less(a, c) /\ ~Less(c, a))
ComparatorsOK == pc = "start" =>
    LET S == Idx(inp.infos) IN
    /\ StrictWeak(LessAuto, S) /\ StrictWeak(LessGlobal, S) /\ StrictWeak(LessDrained, S)
    /\ StrictWeak(LessEach, S) /\ StrictWeak(LessFill, S)
\* the loop always ends: `left` strictly decreases or a node is consumed
Terminates == <>(pc = "done")
=============================================================================
