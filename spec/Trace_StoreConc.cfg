SPECIFICATION TraceSpec
CONSTANTS
  Pods = {"p1"}
  Nodes = {"n1"}
  Wls = {"w1", "w2"}
  Idents = {"i1"}
  MaxOps = 0
POSTCONDITION TraceAccepted
CHECK_DEADLOCK FALSE
