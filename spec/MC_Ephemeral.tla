---------------------------- MODULE MC_Ephemeral ----------------------------
EXTENDS Ephemeral, Json, IOUtils
Emit == (Len(hist) = MaxOps) => PrintT(<<"INPUT", ToJson([ops |-> hist])>>)
=============================================================================
