SPECIFICATION Spec
CONSTANTS
  Addrs = {"a1"}
  Subs = {"s1", "s2"}
  Kind <- KindStalled
  MaxOps = 3
PROPERTIES Converges UnsubscribeCompletes
CHECK_DEADLOCK FALSE
