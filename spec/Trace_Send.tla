------------------------------ MODULE Trace_Send ------------------------------
(* Judges observed transfers (C29): the call finishes; exactly one result per  *)
(* distinct target and file; every target whose engine reads everything holds *)
(* content identical to the input (length + digest) with the requested owner   *)
(* and mode.                                                                   *)
EXTENDS Integers, Sequences, FiniteSets, TLC, TraceBase
VARIABLES l
B(t) == "all"
S == INSTANCE Send WITH Targets <- {}, Behaviour <- B, Chunks <- 0, Cap <- 0, ReaderCloses <- FALSE,
        left <- 0, buf <- 0, bufClosed <- FALSE, sender <- 0, reader <- 0, taken <- 0, results <- 0, closed <- FALSE
NResults(e, t) == Cardinality({i \in 1..Len(e.results) : e.results[i].id = t})
Delivered(e, t) == {i \in 1..Len(e.delivered) : e.delivered[i].id = t}
SizeClass(c) == IF c.size = 0 THEN "empty-file" ELSE IF c.size > 11 * 2048 THEN "more-than-11-chunks" ELSE "up-to-11-chunks"
Tag(c) == c.path \o "/" \o c.targets \o "/w1-" \o c.behav \o "/" \o SizeClass(c)
TraceInit == l = 1
TraceNext ==
    /\ l <= Len(Trace)
    /\ LET e == Trace[l]  c == e.case IN
       /\ Report(e.class # "hang", "C29", l, "call-never-finished/" \o Tag(c))
       /\ (IF e.class = "hang" THEN TRUE
           ELSE /\ Report(\A t \in S!TargetsOf(c) : NResults(e, t) = 1, "C29", l,
                          (IF \E t \in S!TargetsOf(c) : NResults(e, t) = 0 THEN "no-result-for-a-target/" ELSE "several-results-for-a-target/") \o Tag(c))
                /\ Report(\A t \in S!TargetsOf(c) : (t # "zz" /\ S!ReadsAll(c, t)) =>
                              \E i \in Delivered(e, t) : e.delivered[i].len = e.want.len /\ e.delivered[i].sum = e.want.sum /\ e.delivered[i].meta = e.want.meta,
                          "C29", l, "content-or-owner-differs/" \o Tag(c)))
    /\ l' = l + 1
TraceSpec == TraceInit /\ [][TraceNext]_l
TraceAccepted == IF TLCGet("stats").diameter - 1 = Len(Trace)
                 THEN PrintT(<<"ACCEPTED", Len(Trace)>>)
                 ELSE PrintT(<<"REJECTED", TLCGet("stats").diameter - 1, Len(Trace)>>)
=============================================================================
