SPECIFICATION Spec
CONSTANTS
  Nodes = {"n1"}
  Focus = TRUE
  MaxOps = 8
INVARIANT DownWhenSettled
CONSTRAINT Emit
CHECK_DEADLOCK FALSE
