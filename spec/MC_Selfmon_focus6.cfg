SPECIFICATION Spec
CONSTANTS
  Nodes = {"n1"}
  ScanFirst = "n1"
  Focus = "on"
  MaxOps = 8
INVARIANT DownWhenSettled
CONSTRAINT Emit
CHECK_DEADLOCK FALSE
