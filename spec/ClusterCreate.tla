---------------------------- MODULE ClusterCreate ----------------------------
(***************************************************************************)
(* One deployment (CreateWorkload) of one instance on each of the nodes in *)
(* Order, as a step machine with one step per external call the code       *)
(* makes (cluster/calcium/create.go), one injected failure at most, a      *)
(* crash at any point, and recovery by the four WAL handlers               *)
(* (cluster/calcium/wal.go).  C13 (counts and markers) and C14 (crash      *)
(* repaired by recovery) are invariants of this model; the conformance     *)
(* harness checks the same predicates on the real state (Trace_Cluster).   *)
(*                                                                         *)
(*   use[n]     usage the resource plugin records for n (instances)        *)
(*   rec        nodes whose instance is recorded in the store              *)
(*   cont       nodes whose instance has a container                       *)
(*   marker[n]  processing marker of the deployment on n (-1 = none)       *)
(*   wal        uncommitted WAL events: "alloc", <<"proc", n>>, <<"wl", n>>*)
(*   pcM, i     main goroutine: program counter and index into Order       *)
(*   pcI[n]     instance goroutine of node n                               *)
(*   faults     injected failures still available (0 or 1)                 *)
(*   phase      "run" | "crashed" | "recovered"                            *)
(* MarkersFirst: the clean-up deletes the markers before it commits their  *)
(* WAL events (the repaired order, fix ab493a2); FALSE = the order as      *)
(* found, for which TLC exhibits a marker that survives recovery.          *)
(***************************************************************************)
EXTENDS Integers, Sequences, FiniteSets, TLC
CONSTANTS Order, MarkersFirst
Nodes == {Order[k] : k \in 1..Len(Order)}
VARIABLES use, rec, cont, marker, wal, pcM, i, pcI, allocd, failed, faults, phase, leak, msgs
vars == <<use, rec, cont, marker, wal, pcM, i, pcI, allocd, failed, faults, phase, leak, msgs>>

Init == /\ use = [n \in Nodes |-> 0] /\ rec = {} /\ cont = {} /\ marker = [n \in Nodes |-> -1] /\ wal = {}
        /\ pcM = "lock" /\ i = 1 /\ pcI = [n \in Nodes |-> "idle"] /\ allocd = {} /\ failed = {}
        /\ faults = 1 /\ phase = "run" /\ leak = {} /\ msgs = 0

Cur == Order[i]
M(l) == pcM' = l
Same(vs) == UNCHANGED vs
\* a step either succeeds or (if a failure is still available) fails
OkOrFail(ok, fail) == ok \/ (faults > 0 /\ faults' = 0 /\ fail)

(* ---- main goroutine: first phase (under the pod lock) ---- *)
CondFail == /\ M("condrb") /\ msgs' = msgs + 1          \* one error message; give back what was allocated (fix 75c5da9 / aa5d5b4)
MainStep ==
  /\ phase = "run" /\ UNCHANGED phase
  /\ CASE pcM = "lock" ->
            OkOrFail(M("logalloc") /\ Same(<<faults, msgs>>), M("closed") /\ msgs' = msgs + 1)
            /\ Same(<<use, rec, cont, marker, wal, i, pcI, allocd, failed, leak>>)
       [] pcM = "logalloc" ->
            OkOrFail(M("alloc") /\ wal' = wal \cup {<<"alloc", "">>} /\ Same(<<faults, msgs>>), M("unlock-fail") /\ msgs' = msgs + 1 /\ Same(wal))
            /\ Same(<<use, rec, cont, marker, i, pcI, allocd, failed, leak>>)
       [] pcM = "alloc" ->
            OkOrFail(M("logproc") /\ use' = [use EXCEPT ![Cur] = @ + 1] /\ allocd' = allocd \cup {Cur} /\ Same(<<faults, msgs>>),
                     CondFail /\ Same(<<use, allocd>>))
            /\ Same(<<rec, cont, marker, wal, i, pcI, failed, leak>>)
       [] pcM = "logproc" ->
            OkOrFail(M("mkproc") /\ wal' = wal \cup {<<"proc", Cur>>} /\ Same(<<faults, msgs>>), CondFail /\ Same(wal))
            /\ Same(<<use, rec, cont, marker, i, pcI, allocd, failed, leak>>)
       [] pcM = "mkproc" ->
            OkOrFail(/\ marker' = [marker EXCEPT ![Cur] = 1] /\ Same(<<faults, msgs>>)
                     /\ IF i < Len(Order) THEN i' = i + 1 /\ M("alloc") ELSE i' = i /\ M("unlock"),
                     CondFail /\ Same(<<marker, i>>))
            /\ Same(<<use, rec, cont, wal, pcI, allocd, failed, leak>>)
       [] pcM = "condrb" ->      \* still under the lock: roll back the allocations that succeeded
            /\ use' = [n \in Nodes |-> IF n \in allocd THEN use[n] - 1 ELSE use[n]] /\ allocd' = {} /\ M("unlock-fail")
            /\ Same(<<rec, cont, marker, wal, i, pcI, failed, faults, leak, msgs>>)
       [] pcM = "unlock-fail" -> M("cleanup") /\ i' = 1 /\ Same(<<use, rec, cont, marker, wal, pcI, allocd, failed, faults, leak, msgs>>)
       [] pcM = "unlock" ->      \* second phase: one goroutine per node
            /\ M("wait") /\ pcI' = [n \in Nodes |-> "getnode"]
            /\ Same(<<use, rec, cont, marker, wal, i, allocd, failed, faults, leak, msgs>>)
       [] pcM = "wait" ->
            /\ \A n \in Nodes : pcI[n] = "done"
            /\ M(IF failed = {} THEN "cleanup" ELSE "rollback") /\ i' = 1
            /\ Same(<<use, rec, cont, marker, wal, pcI, allocd, failed, faults, leak, msgs>>)
       [] pcM = "rollback" ->    \* give back the allocation of every failed instance (under the pod lock)
            /\ use' = [n \in Nodes |-> IF n \in failed THEN use[n] - 1 ELSE use[n]] /\ M("cleanup")
            /\ Same(<<rec, cont, marker, wal, i, pcI, allocd, failed, faults, leak, msgs>>)
       (* ---- clean-up (deferred functions): markers and their WAL events, then the allocation event ---- *)
       [] pcM = "cleanup" ->
            IF MarkersFirst
            THEN /\ marker' = [n \in Nodes |-> -1] /\ M("commitproc")        \* delete every marker ...
                 /\ Same(<<use, rec, cont, wal, i, pcI, allocd, failed, faults, leak, msgs>>)
            ELSE /\ wal' = wal \ {<<"proc", n>> : n \in Nodes} /\ M("delmarkers")   \* as found: commit the events first ...
                 /\ Same(<<use, rec, cont, marker, i, pcI, allocd, failed, faults, leak, msgs>>)
       [] pcM = "commitproc" ->  \* ... then commit their events
            /\ wal' = wal \ {<<"proc", n>> : n \in Nodes} /\ M("commitalloc")
            /\ Same(<<use, rec, cont, marker, i, pcI, allocd, failed, faults, leak, msgs>>)
       [] pcM = "delmarkers" ->  \* ... then delete the markers
            /\ marker' = [n \in Nodes |-> -1] /\ M("commitalloc")
            /\ Same(<<use, rec, cont, wal, i, pcI, allocd, failed, faults, leak, msgs>>)
       [] pcM = "commitalloc" ->
            /\ wal' = wal \ {<<"alloc", "">>} /\ M("closed")
            /\ Same(<<use, rec, cont, marker, i, pcI, allocd, failed, faults, leak, msgs>>)
       [] OTHER -> FALSE

(* ---- instance goroutine of node n ---- *)
IFail(n) == /\ pcI' = [pcI EXCEPT ![n] = "rmmeta"] /\ failed' = failed \cup {n}
InstStep(n) ==
  /\ phase = "run" /\ UNCHANGED phase
  /\ CASE pcI[n] = "getnode" ->
            OkOrFail(pcI' = [pcI EXCEPT ![n] = "create"] /\ Same(<<faults, failed, msgs>>),
                     pcI' = [pcI EXCEPT ![n] = "done"] /\ failed' = failed \cup {n} /\ msgs' = msgs + 1)
            /\ Same(<<use, rec, cont, marker, wal, pcM, i, allocd, leak>>)
       [] pcI[n] = "create" ->
            OkOrFail(pcI' = [pcI EXCEPT ![n] = "logwl"] /\ cont' = cont \cup {n} /\ leak' = leak \cup {n} /\ Same(<<faults, failed, msgs>>),
                     pcI' = [pcI EXCEPT ![n] = "done"] /\ failed' = failed \cup {n} /\ msgs' = msgs + 1 /\ Same(<<cont, leak>>))
            /\ Same(<<use, rec, marker, wal, pcM, i, allocd>>)
       [] pcI[n] = "logwl" ->    \* from here on the container is known to the log: no leak allowed any more
            OkOrFail(pcI' = [pcI EXCEPT ![n] = "record"] /\ wal' = wal \cup {<<"wl", n>>} /\ leak' = leak \ {n} /\ Same(<<faults, failed>>),
                     IFail(n) /\ Same(<<wal, leak>>))
            /\ Same(<<use, rec, cont, marker, pcM, i, allocd, msgs>>)
       [] pcI[n] = "record" ->   \* add the workload and decrement the marker atomically
            OkOrFail(pcI' = [pcI EXCEPT ![n] = "start"] /\ rec' = rec \cup {n} /\ marker' = [marker EXCEPT ![n] = @ - 1] /\ Same(<<faults, failed>>),
                     IFail(n) /\ Same(<<rec, marker>>))
            /\ Same(<<use, cont, wal, pcM, i, allocd, leak, msgs>>)
       [] pcI[n] = "start" ->
            OkOrFail(pcI' = [pcI EXCEPT ![n] = "commitwl"] /\ msgs' = msgs + 1 /\ Same(<<faults, failed>>), IFail(n) /\ Same(msgs))
            /\ Same(<<use, rec, cont, marker, wal, pcM, i, allocd, leak>>)
       [] pcI[n] = "rmmeta" ->   \* compensation: never failed (single failure)
            /\ rec' = rec \ {n} /\ pcI' = [pcI EXCEPT ![n] = "rmcont"]
            /\ Same(<<use, cont, marker, wal, pcM, i, allocd, failed, faults, leak, msgs>>)
       [] pcI[n] = "rmcont" ->
            /\ cont' = cont \ {n} /\ leak' = leak \ {n} /\ msgs' = msgs + 1 /\ pcI' = [pcI EXCEPT ![n] = "commitwl"]
            /\ Same(<<use, rec, marker, wal, pcM, i, allocd, failed, faults>>)
       [] pcI[n] = "commitwl" ->
            /\ wal' = wal \ {<<"wl", n>>} /\ pcI' = [pcI EXCEPT ![n] = "done"]
            /\ Same(<<use, rec, cont, marker, pcM, i, allocd, failed, faults, leak, msgs>>)
       [] OTHER -> FALSE

(* ---- crash and recovery ---- *)
Crash == /\ phase = "run" /\ pcM # "closed" /\ phase' = "crashed"
         /\ Same(<<use, rec, cont, marker, wal, pcM, i, pcI, allocd, failed, faults, leak, msgs>>)
\* the handlers in the order of the log: allocation event first (fix usage to the recorded workloads), then the markers,
\* then the created workloads (a recorded one is removed through RemoveWorkload, which also gives its usage back)
Recover == /\ phase = "crashed" /\ phase' = "recovered"
           /\ LET fixed == IF <<"alloc", "">> \in wal THEN [n \in Nodes |-> IF n \in rec THEN 1 ELSE 0] ELSE use
                  gone == {n \in Nodes : <<"wl", n>> \in wal}
              IN /\ use' = [n \in Nodes |-> IF n \in gone /\ n \in rec THEN fixed[n] - 1 ELSE fixed[n]]
                 /\ rec' = rec \ gone /\ cont' = cont \ gone
                 /\ marker' = [n \in Nodes |-> IF <<"proc", n>> \in wal THEN -1 ELSE marker[n]]
           /\ wal' = {} /\ Same(<<pcM, i, pcI, allocd, failed, faults, leak, msgs>>)
Next == MainStep \/ (\E n \in Nodes : InstStep(n)) \/ Crash \/ Recover
Spec == Init /\ [][Next]_vars /\ WF_vars(MainStep) /\ \A n \in Nodes : WF_vars(InstStep(n))

(* ---- properties ---- *)
RecN(n) == IF n \in rec THEN 1 ELSE 0
Count(n) == RecN(n) + (IF marker[n] > 0 THEN marker[n] ELSE 0)
\* C13 while the deployment runs: recorded <= count <= prior (0) + planned (1)
CountInBounds == phase = "run" => \A n \in Nodes : RecN(n) <= Count(n) /\ Count(n) <= 1
\* C13 / C10 / C12 once the deployment has returned
ClosedClean == (phase = "run" /\ pcM = "closed") =>
                  /\ \A n \in Nodes : marker[n] = -1 /\ use[n] = RecN(n)
                  /\ cont = rec /\ wal = {}
                  /\ (msgs = 1 /\ rec = {}) \/ msgs = Len(Order)
\* C14 after a crash and recovery
RecoveredClean == phase = "recovered" =>
                  /\ \A n \in Nodes : marker[n] = -1 /\ use[n] = RecN(n)
                  /\ rec \subseteq cont /\ (cont \ rec) \subseteq leak
Closes == <>(phase # "run" \/ pcM = "closed")
=============================================================================
