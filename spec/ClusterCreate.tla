---------------------------- MODULE ClusterCreate ----------------------------
(***************************************************************************)
(* One deployment (CreateWorkload) of one instance on each of the nodes in *)
(* Order, as a step machine with one step per external call the code       *)
(* makes (cluster/calcium/create.go), one injected failure at most, a      *)
(* crash at any point, and recovery by the four WAL handlers               *)
(* (cluster/calcium/wal.go).  C13 (counts and markers) and C14 (crash      *)
(* repaired by recovery) are invariants of this model; the conformance     *)
(* harness checks the same predicates on the real state (Trace_Cluster).   *)
(*                                                                         *)
(*   use[n]     usage the resource plugin records for n (instances)        *)
(*   rec        nodes whose instance is recorded in the store              *)
(*   cont       nodes whose instance has a container                       *)
(*   marker[n]  processing marker of the deployment on n (-1 = none)       *)
(*   wal        uncommitted WAL events: "alloc", <<"proc", n>>, <<"wl", n>>*)
(*   pcM, i     main goroutine: program counter and index into Order       *)
(*   pcI[n]     instance goroutine of node n                               *)
(*   faults     injected failures still available (0 or 1)                 *)
(*   phase      "run" | "crashed" | "recovered"                            *)
(* MarkersFirst: the clean-up deletes the markers before it commits their  *)
(* WAL events (the repaired order, fix ab493a2); FALSE = the order as      *)
(* found, for which TLC exhibits a marker that survives recovery.          *)
(***************************************************************************)
EXTENDS Integers, Sequences, FiniteSets, TLC
CONSTANTS Order, MarkersFirst,
          StepRecovery,   \* FALSE: recovery is one atomic step (what C14 quantifies over: one crash, then a recovery that runs to its end)
          FixAfterRemove, \* a candidate repair, checked at design level only: the created-workload handler ends by repairing the node's usage from the records
          RCrashes        \* with StepRecovery: how many times the recovering instance may itself stop (0, 1, ...)
Nodes == {Order[k] : k \in 1..Len(Order)}
VARIABLES use, rec, cont, marker, wal, pcM, i, pcI, allocd, failed, faults, phase, leak, msgs
\* recovery as a step machine (wal/hydro.go Recover + the handlers of cluster/calcium/wal.go):
\*   cur    the event being handled (<<"none", "">> between two events);  rstep  where its handler is
\*   rfix   nodes whose usage the allocation handler has already repaired;  rcr  crashes of the recovering instance still allowed
VARIABLES cur, rstep, rfix, rcr
rvars == <<cur, rstep, rfix, rcr>>
vars == <<use, rec, cont, marker, wal, pcM, i, pcI, allocd, failed, faults, phase, leak, msgs, rvars>>
None == <<"none", "">>

Init == /\ use = [n \in Nodes |-> 0] /\ rec = {} /\ cont = {} /\ marker = [n \in Nodes |-> -1] /\ wal = {}
        /\ pcM = "lock" /\ i = 1 /\ pcI = [n \in Nodes |-> "idle"] /\ allocd = {} /\ failed = {}
        /\ faults = 1 /\ phase = "run" /\ leak = {} /\ msgs = 0
        /\ cur = None /\ rstep = "pick" /\ rfix = {} /\ rcr = RCrashes

Cur == Order[i]
M(l) == pcM' = l
Same(vs) == UNCHANGED vs
\* a step either succeeds or (if a failure is still available) fails
OkOrFail(ok, fail) == ok \/ (faults > 0 /\ faults' = 0 /\ fail)

(* ---- main goroutine: first phase (under the pod lock) ---- *)
CondFail == /\ M("condrb") /\ msgs' = msgs + 1          \* one error message; give back what was allocated (fix 75c5da9 / aa5d5b4)
MainStep ==
  /\ phase = "run" /\ UNCHANGED phase
  /\ CASE pcM = "lock" ->
            OkOrFail(M("logalloc") /\ Same(<<faults, msgs>>), M("closed") /\ msgs' = msgs + 1)
            /\ Same(<<use, rec, cont, marker, wal, i, pcI, allocd, failed, leak>>)
       [] pcM = "logalloc" ->
            OkOrFail(M("alloc") /\ wal' = wal \cup {<<"alloc", "">>} /\ Same(<<faults, msgs>>), M("unlock-fail") /\ msgs' = msgs + 1 /\ Same(wal))
            /\ Same(<<use, rec, cont, marker, i, pcI, allocd, failed, leak>>)
       [] pcM = "alloc" ->
            OkOrFail(M("logproc") /\ use' = [use EXCEPT ![Cur] = @ + 1] /\ allocd' = allocd \cup {Cur} /\ Same(<<faults, msgs>>),
                     CondFail /\ Same(<<use, allocd>>))
            /\ Same(<<rec, cont, marker, wal, i, pcI, failed, leak>>)
       [] pcM = "logproc" ->
            OkOrFail(M("mkproc") /\ wal' = wal \cup {<<"proc", Cur>>} /\ Same(<<faults, msgs>>), CondFail /\ Same(wal))
            /\ Same(<<use, rec, cont, marker, i, pcI, allocd, failed, leak>>)
       [] pcM = "mkproc" ->
            OkOrFail(/\ marker' = [marker EXCEPT ![Cur] = 1] /\ Same(<<faults, msgs>>)
                     /\ IF i < Len(Order) THEN i' = i + 1 /\ M("alloc") ELSE i' = i /\ M("unlock"),
                     CondFail /\ Same(<<marker, i>>))
            /\ Same(<<use, rec, cont, wal, pcI, allocd, failed, leak>>)
       [] pcM = "condrb" ->      \* still under the lock: roll back the allocations that succeeded
            /\ use' = [n \in Nodes |-> IF n \in allocd THEN use[n] - 1 ELSE use[n]] /\ allocd' = {} /\ M("unlock-fail")
            /\ Same(<<rec, cont, marker, wal, i, pcI, failed, faults, leak, msgs>>)
       [] pcM = "unlock-fail" -> M("cleanup") /\ i' = 1 /\ Same(<<use, rec, cont, marker, wal, pcI, allocd, failed, faults, leak, msgs>>)
       [] pcM = "unlock" ->      \* second phase: one goroutine per node
            /\ M("wait") /\ pcI' = [n \in Nodes |-> "getnode"]
            /\ Same(<<use, rec, cont, marker, wal, i, allocd, failed, faults, leak, msgs>>)
       [] pcM = "wait" ->
            /\ \A n \in Nodes : pcI[n] = "done"
            /\ M(IF failed = {} THEN "cleanup" ELSE "rollback") /\ i' = 1
            /\ Same(<<use, rec, cont, marker, wal, pcI, allocd, failed, faults, leak, msgs>>)
       [] pcM = "rollback" ->    \* give back the allocation of every failed instance (under the pod lock)
            /\ use' = [n \in Nodes |-> IF n \in failed THEN use[n] - 1 ELSE use[n]] /\ M("cleanup")
            /\ Same(<<rec, cont, marker, wal, i, pcI, allocd, failed, faults, leak, msgs>>)
       (* ---- clean-up (deferred functions): markers and their WAL events, then the allocation event ---- *)
       [] pcM = "cleanup" ->
            IF MarkersFirst
            THEN /\ marker' = [n \in Nodes |-> -1] /\ M("commitproc")        \* delete every marker ...
                 /\ Same(<<use, rec, cont, wal, i, pcI, allocd, failed, faults, leak, msgs>>)
            ELSE /\ wal' = wal \ {<<"proc", n>> : n \in Nodes} /\ M("delmarkers")   \* as found: commit the events first ...
                 /\ Same(<<use, rec, cont, marker, i, pcI, allocd, failed, faults, leak, msgs>>)
       [] pcM = "commitproc" ->  \* ... then commit their events
            /\ wal' = wal \ {<<"proc", n>> : n \in Nodes} /\ M("commitalloc")
            /\ Same(<<use, rec, cont, marker, i, pcI, allocd, failed, faults, leak, msgs>>)
       [] pcM = "delmarkers" ->  \* ... then delete the markers
            /\ marker' = [n \in Nodes |-> -1] /\ M("commitalloc")
            /\ Same(<<use, rec, cont, wal, i, pcI, allocd, failed, faults, leak, msgs>>)
       [] pcM = "commitalloc" ->
            /\ wal' = wal \ {<<"alloc", "">>} /\ M("closed")
            /\ Same(<<use, rec, cont, marker, i, pcI, allocd, failed, faults, leak, msgs>>)
       [] OTHER -> FALSE

(* ---- instance goroutine of node n ---- *)
IFail(n) == /\ pcI' = [pcI EXCEPT ![n] = "rmmeta"] /\ failed' = failed \cup {n}
InstStep(n) ==
  /\ phase = "run" /\ UNCHANGED phase
  /\ CASE pcI[n] = "getnode" ->
            OkOrFail(pcI' = [pcI EXCEPT ![n] = "create"] /\ Same(<<faults, failed, msgs>>),
                     pcI' = [pcI EXCEPT ![n] = "done"] /\ failed' = failed \cup {n} /\ msgs' = msgs + 1)
            /\ Same(<<use, rec, cont, marker, wal, pcM, i, allocd, leak>>)
       [] pcI[n] = "create" ->
            OkOrFail(pcI' = [pcI EXCEPT ![n] = "logwl"] /\ cont' = cont \cup {n} /\ leak' = leak \cup {n} /\ Same(<<faults, failed, msgs>>),
                     pcI' = [pcI EXCEPT ![n] = "done"] /\ failed' = failed \cup {n} /\ msgs' = msgs + 1 /\ Same(<<cont, leak>>))
            /\ Same(<<use, rec, marker, wal, pcM, i, allocd>>)
       [] pcI[n] = "logwl" ->    \* from here on the container is known to the log: no leak allowed any more
            OkOrFail(pcI' = [pcI EXCEPT ![n] = "record"] /\ wal' = wal \cup {<<"wl", n>>} /\ leak' = leak \ {n} /\ Same(<<faults, failed>>),
                     IFail(n) /\ Same(<<wal, leak>>))
            /\ Same(<<use, rec, cont, marker, pcM, i, allocd, msgs>>)
       [] pcI[n] = "record" ->   \* add the workload and decrement the marker atomically
            OkOrFail(pcI' = [pcI EXCEPT ![n] = "start"] /\ rec' = rec \cup {n} /\ marker' = [marker EXCEPT ![n] = @ - 1] /\ Same(<<faults, failed>>),
                     IFail(n) /\ Same(<<rec, marker>>))
            /\ Same(<<use, cont, wal, pcM, i, allocd, leak, msgs>>)
       [] pcI[n] = "start" ->
            OkOrFail(pcI' = [pcI EXCEPT ![n] = "commitwl"] /\ msgs' = msgs + 1 /\ Same(<<faults, failed>>), IFail(n) /\ Same(msgs))
            /\ Same(<<use, rec, cont, marker, wal, pcM, i, allocd, leak>>)
       [] pcI[n] = "rmmeta" ->   \* compensation: never failed (single failure)
            /\ rec' = rec \ {n} /\ pcI' = [pcI EXCEPT ![n] = "rmcont"]
            /\ Same(<<use, cont, marker, wal, pcM, i, allocd, failed, faults, leak, msgs>>)
       [] pcI[n] = "rmcont" ->
            /\ cont' = cont \ {n} /\ leak' = leak \ {n} /\ msgs' = msgs + 1 /\ pcI' = [pcI EXCEPT ![n] = "commitwl"]
            /\ Same(<<use, rec, marker, wal, pcM, i, allocd, failed, faults>>)
       [] pcI[n] = "commitwl" ->
            /\ wal' = wal \ {<<"wl", n>>} /\ pcI' = [pcI EXCEPT ![n] = "done"]
            /\ Same(<<use, rec, cont, marker, pcM, i, allocd, failed, faults, leak, msgs>>)
       [] OTHER -> FALSE

RecN(n) == IF n \in rec THEN 1 ELSE 0
(* ---- crash and recovery ---- *)
Crash == /\ phase = "run" /\ pcM # "closed" /\ phase' = "crashed"
         /\ Same(<<use, rec, cont, marker, wal, pcM, i, pcI, allocd, failed, faults, leak, msgs>>)
\* the handlers in the order of the log: allocation event first (fix usage to the recorded workloads), then the markers,
\* then the created workloads (a recorded one is removed through RemoveWorkload, which also gives its usage back)
Recover == /\ ~StepRecovery /\ phase = "crashed" /\ phase' = "recovered"
           /\ LET fixed == IF <<"alloc", "">> \in wal THEN [n \in Nodes |-> IF n \in rec THEN 1 ELSE 0] ELSE use
                  gone == {n \in Nodes : <<"wl", n>> \in wal}
              IN /\ use' = [n \in Nodes |-> IF n \in gone /\ n \in rec THEN fixed[n] - 1 ELSE fixed[n]]
                 /\ rec' = rec \ gone /\ cont' = cont \ gone
                 /\ marker' = [n \in Nodes |-> IF <<"proc", n>> \in wal THEN -1 ELSE marker[n]]
           /\ wal' = {} /\ Same(<<pcM, i, pcI, allocd, failed, faults, leak, msgs>>)

(* ---- recovery step by step: the events in the order of the log, one handler step per external call, the event deleted ---- *)
(* ---- when its handler has returned; the recovering instance may stop between any two steps and a fresh one starts over ---- *)
Prio(e) == CASE e[1] = "alloc" -> 0 [] e[1] = "proc" -> 1 [] OTHER -> 2        \* log order: allocation, markers, created workloads
RSame == Same(<<pcM, i, pcI, allocd, failed, faults, leak, msgs, rcr>>)
RStart == /\ StepRecovery /\ phase = "crashed" /\ phase' = "recovering"
          /\ cur' = None /\ rstep' = "pick" /\ rfix' = {} /\ Same(<<use, rec, cont, marker, wal>>) /\ RSame
RStep ==
  /\ phase = "recovering" /\ RSame
  /\ CASE rstep = "pick" ->
            IF wal = {} THEN phase' = "recovered" /\ Same(<<use, rec, cont, marker, wal, cur, rstep, rfix>>)
            ELSE /\ \E e \in wal : (\A f \in wal : Prio(e) <= Prio(f)) /\ cur' = e
                      /\ rstep' = CASE e[1] = "alloc" -> "fix" [] e[1] = "proc" -> "delmarker"
                                     [] OTHER -> IF e[2] \in rec THEN "rm-use" ELSE "rm-cont"      \* CreateWorkloadHandler: GetWorkload
                 /\ Same(<<use, rec, cont, marker, wal, rfix, phase>>)
       [] rstep = "fix" ->          \* WorkloadResourceAllocatedHandler: NodeResource(fix) per node, any order
            IF rfix = Nodes THEN rstep' = "del" /\ Same(<<use, rec, cont, marker, wal, cur, rfix, phase>>)
            ELSE \E n \in Nodes \ rfix : /\ use' = [use EXCEPT ![n] = RecN(n)] /\ rfix' = rfix \cup {n}
                                        /\ Same(<<rec, cont, marker, wal, cur, rstep, phase>>)
       [] rstep = "delmarker" ->    \* ProcessingCreatedHandler
            /\ marker' = [marker EXCEPT ![cur[2]] = -1] /\ rstep' = "del" /\ Same(<<use, rec, cont, wal, cur, rfix, phase>>)
       [] rstep = "rm-use" ->       \* RemoveWorkload: give the usage back ...
            /\ use' = [use EXCEPT ![cur[2]] = @ - 1] /\ rstep' = "rm-rec" /\ Same(<<rec, cont, marker, wal, cur, rfix, phase>>)
       [] rstep = "rm-rec" ->       \* ... remove the record ...
            /\ rec' = rec \ {cur[2]} /\ rstep' = "rm-cont" /\ Same(<<use, cont, marker, wal, cur, rfix, phase>>)
       [] rstep = "rm-cont" ->      \* ... remove the container
            /\ cont' = cont \ {cur[2]} /\ rstep' = (IF FixAfterRemove THEN "rm-fix" ELSE "del") /\ Same(<<use, rec, marker, wal, cur, rfix, phase>>)
       [] rstep = "rm-fix" ->       \* (candidate repair) usage of the node := what its recorded workloads add up to
            /\ use' = [use EXCEPT ![cur[2]] = RecN(cur[2])] /\ rstep' = "del" /\ Same(<<rec, cont, marker, wal, cur, rfix, phase>>)
       [] rstep = "del" ->          \* hydro.recover: delete the event
            /\ wal' = wal \ {cur} /\ cur' = None /\ rstep' = "pick" /\ rfix' = {} /\ Same(<<use, rec, cont, marker, phase>>)
       [] OTHER -> FALSE
RCrash == /\ phase = "recovering" /\ rcr > 0 /\ rcr' = rcr - 1 /\ phase' = "crashed"
          /\ cur' = None /\ rstep' = "pick" /\ rfix' = {}
          /\ Same(<<use, rec, cont, marker, wal, pcM, i, pcI, allocd, failed, faults, leak, msgs>>)
MainR == MainStep /\ UNCHANGED rvars
InstR(n) == InstStep(n) /\ UNCHANGED rvars
Next == MainR \/ (\E n \in Nodes : InstR(n)) \/ ((Crash \/ Recover) /\ UNCHANGED rvars) \/ RStart \/ RStep \/ RCrash
Spec == Init /\ [][Next]_vars /\ WF_vars(MainR) /\ (\A n \in Nodes : WF_vars(InstR(n))) /\ WF_vars(RStart) /\ WF_vars(RStep)

(* ---- properties ---- *)
Count(n) == RecN(n) + (IF marker[n] > 0 THEN marker[n] ELSE 0)
\* C13 while the deployment runs: recorded <= count <= prior (0) + planned (1)
CountInBounds == phase = "run" => \A n \in Nodes : RecN(n) <= Count(n) /\ Count(n) <= 1
\* C13 / C10 / C12 once the deployment has returned
ClosedClean == (phase = "run" /\ pcM = "closed") =>
                  /\ \A n \in Nodes : marker[n] = -1 /\ use[n] = RecN(n)
                  /\ cont = rec /\ wal = {}
                  /\ (msgs = 1 /\ rec = {}) \/ msgs = Len(Order)
\* C14 after a crash and recovery
RecoveredClean == phase = "recovered" =>
                  /\ \A n \in Nodes : marker[n] = -1 /\ use[n] = RecN(n)
                  /\ rec \subseteq cont /\ (cont \ rec) \subseteq leak
Closes == <>(phase # "run" \/ pcM = "closed")
\* a recovery, however often it is interrupted (at most RCrashes times), ends
RecoveryEnds == (phase = "crashed" /\ StepRecovery) ~> (phase = "recovered")
=============================================================================
