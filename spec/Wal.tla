-------------------------------- MODULE Wal --------------------------------
(***************************************************************************)
(* The recovery log (wal/hydro.go on wal/kv/lithium.go), property C16.     *)
(*                                                                         *)
(*   next   - the store's persistent sequence (last id issued)             *)
(*   store  - uncommitted events, a sequence ordered by id of records      *)
(*            [id, type, plan, seen]; `plan` scripts what the event's      *)
(*            handler will answer in successive recoveries and `seen` how  *)
(*            many recoveries have already examined it                     *)
(*   issued - every id ever issued (history variable for IdsUnique)        *)
(*   hist   - the operations so far (history variable, emitted for replay) *)
(* Handler answers: ok | err | notNeeded | decodeErr; events of type "tU"  *)
(* have no registered handler at recovery time (unknown type).             *)
(***************************************************************************)
EXTENDS Integers, Sequences, FiniteSets, TLC

CONSTANTS Types, Plans, MaxOps, Slots

VARIABLES next, store, issued, hist, lastHandled
vars == <<next, store, issued, hist, lastHandled>>

Answer(ev) == IF ev.type = "tU" THEN "unknown"
              ELSE ev.plan[IF ev.seen + 1 > Len(ev.plan) THEN Len(ev.plan) ELSE ev.seen + 1]
Removed(ans) == ans \in {"ok", "notNeeded"}

RECURSIVE Keep(_)
Keep(s) == IF s = <<>> THEN <<>>
           ELSE IF Removed(Answer(Head(s))) THEN Keep(Tail(s))
           ELSE <<[Head(s) EXCEPT !.seen = @ + 1]>> \o Keep(Tail(s))

Init == next = 0 /\ store = <<>> /\ issued = {} /\ hist = <<>> /\ lastHandled = <<>>

Log(t, p) ==
    /\ next' = next + 1
    /\ store' = Append(store, [id |-> next + 1, type |-> t, plan |-> p, seen |-> 0])
    /\ issued' = issued \cup {next + 1}
    /\ hist' = Append(hist, [op |-> "log", type |-> t, plan |-> p, slot |-> 0])
    /\ UNCHANGED lastHandled
Commit(i) ==
    /\ i \in 1..Len(store)
    /\ store' = [j \in 1..(Len(store) - 1) |-> IF j < i THEN store[j] ELSE store[j + 1]]
    /\ hist' = Append(hist, [op |-> "commit", type |-> "", plan |-> <<>>, slot |-> i])
    /\ UNCHANGED <<next, issued, lastHandled>>
Reopen ==
    /\ hist' = Append(hist, [op |-> "reopen", type |-> "", plan |-> <<>>, slot |-> 0])
    /\ UNCHANGED <<next, store, issued, lastHandled>>
Recover ==
    /\ store' = Keep(store)
    /\ lastHandled' = [i \in 1..Len(store) |-> [id |-> store[i].id, ans |-> Answer(store[i])]]
    /\ hist' = Append(hist, [op |-> "recover", type |-> "", plan |-> <<>>, slot |-> 0])
    /\ UNCHANGED <<next, issued>>

Next == /\ Len(hist) < MaxOps
        /\ \/ \E t \in Types, p \in Plans : Log(t, p)
           \/ \E i \in Slots : Commit(i)
           \/ Reopen
           \/ Recover
Spec == Init /\ [][Next]_vars

(* ---- C16 on the model ---- *)
Ordered == \A i, j \in 1..Len(store) : i < j => store[i].id < store[j].id
IdsFresh == \A i \in 1..Len(store) : store[i].id <= next /\ store[i].id \in issued
IdsNeverReused == [][\A x \in issued' \ issued : \A y \in issued : x > y]_vars
HandledInOrder == \A i, j \in 1..Len(lastHandled) : i < j => lastHandled[i].id < lastHandled[j].id
=============================================================================
