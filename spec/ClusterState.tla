---------------------------- MODULE ClusterState ----------------------------
(***************************************************************************)
(* The abstract state of an Eru cluster and the state predicates of the    *)
(* cluster-level properties.  A state s is a record (the projection the    *)
(* conformance harness reads back from the real store, resource plugin and *)
(* engines, and the state the Cluster step-machine model maintains):       *)
(*   s.pods       sequence of pod names                                    *)
(*   s.nodes      sequence of [name, pod, podok, hasres, bypass, listerr,  *)
(*                  cap, use : [cpu, mem, cores, numamem], diffs,          *)
(*                  wls : sequence of [id, cpu, mem, cores, numamem,       *)
(*                                     container, running, app, entry]]    *)
(*   s.orphanres  resource records without a node                          *)
(*   s.orphanwls  workload records whose node is not recorded              *)
(*   s.listallerr listing all workloads fails                              *)
(*   s.proc       in-progress markers [app, entry, node, ident, count]     *)
(*   s.containers sequence of [id, node, running, recorded]                *)
(* cpu and cores are in pieces (1/ShareBase of a core).                    *)
(***************************************************************************)
EXTENDS Integers, Sequences, FiniteSets, TLC

RECURSIVE SumSeq(_)
SumSeq(q) == IF q = <<>> THEN 0 ELSE Head(q) + SumSeq(Tail(q))
Range(q) == {q[i] : i \in 1..Len(q)}
Col(q, f(_)) == [i \in 1..Len(q) |-> f(q[i])]
At(v, i) == IF i <= Len(v) THEN v[i] ELSE 0

(* ---- C10: node usage equals the sum of the recorded workloads; no overcommit; no diffs ---- *)
WlSum(n, f(_)) == SumSeq([i \in 1..Len(n.wls) |-> f(n.wls[i])])
UsageIsSumNode(n) ==
    /\ n.use.cpu = WlSum(n, LAMBDA w : w.cpu)
    /\ n.use.mem = WlSum(n, LAMBDA w : w.mem)
    /\ \A c \in 1..Len(n.use.cores) : n.use.cores[c] = WlSum(n, LAMBDA w : At(w.cores, c))
    /\ \A k \in 1..Len(n.use.numamem) : n.use.numamem[k] = WlSum(n, LAMBDA w : At(w.numamem, k))
NoOvercommitNode(n) ==
    /\ n.use.mem <= n.cap.mem
    /\ \A c \in 1..Len(n.use.cores) : n.use.cores[c] <= At(n.cap.cores, c)
    /\ \A k \in 1..Len(n.use.numamem) : n.use.numamem[k] <= At(n.cap.numamem, k)
WhichUsage(n) == IF n.use.cpu # WlSum(n, LAMBDA w : w.cpu) THEN "cpu"
                 ELSE IF n.use.mem # WlSum(n, LAMBDA w : w.mem) THEN "memory"
                 ELSE IF \E c \in 1..Len(n.use.cores) : n.use.cores[c] # WlSum(n, LAMBDA w : At(w.cores, c)) THEN "cores"
                 ELSE "numa-memory"
HasRes(s) == {i \in 1..Len(s.nodes) : s.nodes[i].hasres /\ ~s.nodes[i].listerr}
UsageIsSum(s) == \A i \in HasRes(s) : UsageIsSumNode(s.nodes[i])
NoOvercommit(s) == \A i \in HasRes(s) : NoOvercommitNode(s.nodes[i])
DiffsEmpty(s) == \A i \in HasRes(s) : s.nodes[i].diffs = 0

(* ---- C22: referential consistency ---- *)
PodsOfNodesExist(s) == \A i \in 1..Len(s.nodes) : s.nodes[i].podok
NodesHaveResources(s) == \A i \in 1..Len(s.nodes) : s.nodes[i].hasres
ResourcesHaveNodes(s) == s.orphanres = <<>>
WorkloadsHaveNodes(s) == s.orphanwls = <<>> /\ ~s.listallerr /\ \A i \in 1..Len(s.nodes) : ~s.nodes[i].listerr

(* ---- the part of the state that a failed operation must leave untouched (C11) ---- *)
WlCore(w) == [id |-> w.id, cpu |-> w.cpu, mem |-> w.mem, cores |-> w.cores, numamem |-> w.numamem, container |-> w.container]
NodeCore(n) == [name |-> n.name, pod |-> n.pod, bypass |-> n.bypass, hasres |-> n.hasres, cap |-> n.cap, use |-> n.use,
                wls |-> {WlCore(n.wls[i]) : i \in 1..Len(n.wls)}]
Core(s) == [pods |-> Range(s.pods), nodes |-> {NodeCore(s.nodes[i]) : i \in 1..Len(s.nodes)}, orphanres |-> Range(s.orphanres)]
CoreDiff(a, b) == IF Range(a.pods) # Range(b.pods) THEN "pods"
                  ELSE IF {n.name : n \in Core(a).nodes} # {n.name : n \in Core(b).nodes} THEN "node-set"
                  ELSE IF {[x EXCEPT !.use = 0, !.wls = 0] : x \in Core(a).nodes} # {[x EXCEPT !.use = 0, !.wls = 0] : x \in Core(b).nodes} THEN "node-capacity"
                  ELSE IF {[x EXCEPT !.wls = 0] : x \in Core(a).nodes} # {[x EXCEPT !.wls = 0] : x \in Core(b).nodes} THEN "node-usage"
                  ELSE IF Core(a).nodes # Core(b).nodes THEN "workloads"
                  ELSE IF Range(a.orphanres) # Range(b.orphanres) THEN "resource-records" ELSE "none"

AllWls(s) == UNION {{[w |-> s.nodes[i].wls[j], node |-> s.nodes[i].name] : j \in 1..Len(s.nodes[i].wls)} : i \in 1..Len(s.nodes)}
WlIds(s) == {x.w.id : x \in AllWls(s)}
FindWl(s, id) == CHOOSE x \in AllWls(s) : x.w.id = id
ContainerIds(s) == {s.containers[i].id : i \in 1..Len(s.containers)}
=============================================================================
