SPECIFICATION Spec
CONSTANTS
  NPlugins = 3
  NNodes = 2
  Caps <- CapsDef2
  Weights = {1, 2, 100}
  Us = {2}
  Rs = {1}
INVARIANT DesignC09
CONSTRAINT Emit
CHECK_DEADLOCK FALSE
