SPECIFICATION Spec
CONSTANTS
  Pods = {"p1"}
  Nodes = {"n1", "n2"}
  Wls = {"w1", "w3"}
  Idents = {"i1"}
  MaxOps = 4
INVARIANTS NodesInPods IdxHasValue
CHECK_DEADLOCK FALSE
