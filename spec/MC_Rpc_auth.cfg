SPECIFICATION Spec
CONSTANTS
  Users = {"admin", "Admin", "a-b_c.d", "x"}
  Passwords <- PwDef
  MaxLives = 1
  MsgCounts = {0}
  Maxes = {0}
  CancelAts <- CancelQuick
  Methods = {"wss"}
  Mode = "auth"
INVARIANT SameCredsAccepted
CONSTRAINT Emit
CHECK_DEADLOCK FALSE
