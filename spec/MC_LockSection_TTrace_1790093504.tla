---- MODULE MC_LockSection_TTrace_1790093504 ----
EXTENDS Sequences, TLCExt, Toolbox, MC_LockSection, Naturals, TLC

_expression ==
    LET MC_LockSection_TEExpression == INSTANCE MC_LockSection_TEExpression
    IN MC_LockSection_TEExpression!expression
----

_trace ==
    LET MC_LockSection_TETrace == INSTANCE MC_LockSection_TETrace
    IN MC_LockSection_TETrace!trace
----

_inv ==
    ~(
        TLCGet("level") = Len(_TETrace)
        /\
        secLive = (TRUE)
        /\
        lost = (<<TRUE, FALSE, FALSE>>)
        /\
        scen = (<<2, 1>>)
        /\
        lockLive = (<<FALSE, TRUE, FALSE>>)
        /\
        got = (2)
        /\
        n = (2)
        /\
        since = (0)
    )
----

_init ==
    /\ secLive = _TETrace[1].secLive
    /\ n = _TETrace[1].n
    /\ lockLive = _TETrace[1].lockLive
    /\ lost = _TETrace[1].lost
    /\ got = _TETrace[1].got
    /\ scen = _TETrace[1].scen
    /\ since = _TETrace[1].since
----

_next ==
    /\ \E i,j \in DOMAIN _TETrace:
        /\ \/ /\ j = i + 1
              /\ i = TLCGet("level")
        /\ secLive  = _TETrace[i].secLive
        /\ secLive' = _TETrace[j].secLive
        /\ n  = _TETrace[i].n
        /\ n' = _TETrace[j].n
        /\ lockLive  = _TETrace[i].lockLive
        /\ lockLive' = _TETrace[j].lockLive
        /\ lost  = _TETrace[i].lost
        /\ lost' = _TETrace[j].lost
        /\ got  = _TETrace[i].got
        /\ got' = _TETrace[j].got
        /\ scen  = _TETrace[i].scen
        /\ scen' = _TETrace[j].scen
        /\ since  = _TETrace[i].since
        /\ since' = _TETrace[j].since

\* Uncomment the ASSUME below to write the states of the error trace
\* to the given file in Json format. Note that you can pass any tuple
\* to `JsonSerialize`. For example, a sub-sequence of _TETrace.
    \* ASSUME
    \*     LET J == INSTANCE Json
    \*         IN J!JsonSerialize("MC_LockSection_TTrace_1790093504.json", _TETrace)

=============================================================================

 Note that you can extract this module `MC_LockSection_TEExpression`
  to a dedicated file to reuse `expression` (the module in the 
  dedicated `MC_LockSection_TEExpression.tla` file takes precedence 
  over the module `MC_LockSection_TEExpression` below).

---- MODULE MC_LockSection_TEExpression ----
EXTENDS Sequences, TLCExt, Toolbox, MC_LockSection, Naturals, TLC

expression == 
    [
        \* To hide variables of the `MC_LockSection` spec from the error trace,
        \* remove the variables below.  The trace will be written in the order
        \* of the fields of this record.
        secLive |-> secLive
        ,n |-> n
        ,lockLive |-> lockLive
        ,lost |-> lost
        ,got |-> got
        ,scen |-> scen
        ,since |-> since
        
        \* Put additional constant-, state-, and action-level expressions here:
        \* ,_stateNumber |-> _TEPosition
        \* ,_secLiveUnchanged |-> secLive = secLive'
        
        \* Format the `secLive` variable as Json value.
        \* ,_secLiveJson |->
        \*     LET J == INSTANCE Json
        \*     IN J!ToJson(secLive)
        
        \* Lastly, you may build expressions over arbitrary sets of states by
        \* leveraging the _TETrace operator.  For example, this is how to
        \* count the number of times a spec variable changed up to the current
        \* state in the trace.
        \* ,_secLiveModCount |->
        \*     LET F[s \in DOMAIN _TETrace] ==
        \*         IF s = 1 THEN 0
        \*         ELSE IF _TETrace[s].secLive # _TETrace[s-1].secLive
        \*             THEN 1 + F[s-1] ELSE F[s-1]
        \*     IN F[_TEPosition - 1]
    ]

=============================================================================



Parsing and semantic processing can take forever if the trace below is long.
 In this case, it is advised to uncomment the module below to deserialize the
 trace from a generated binary file.

\*
\*---- MODULE MC_LockSection_TETrace ----
\*EXTENDS IOUtils, MC_LockSection, TLC
\*
\*trace == IODeserialize("MC_LockSection_TTrace_1790093504.bin", TRUE)
\*
\*=============================================================================
\*

---- MODULE MC_LockSection_TETrace ----
EXTENDS MC_LockSection, TLC

trace == 
    <<
    ([secLive |-> FALSE,lost |-> <<FALSE, FALSE, FALSE>>,scen |-> <<>>,lockLive |-> <<FALSE, FALSE, FALSE>>,got |-> 0,n |-> 2,since |-> 0]),
    ([secLive |-> TRUE,lost |-> <<FALSE, FALSE, FALSE>>,scen |-> <<>>,lockLive |-> <<TRUE, FALSE, FALSE>>,got |-> 1,n |-> 2,since |-> 0]),
    ([secLive |-> TRUE,lost |-> <<FALSE, FALSE, FALSE>>,scen |-> <<>>,lockLive |-> <<TRUE, TRUE, FALSE>>,got |-> 2,n |-> 2,since |-> 0]),
    ([secLive |-> TRUE,lost |-> <<TRUE, FALSE, FALSE>>,scen |-> <<2, 1>>,lockLive |-> <<TRUE, TRUE, FALSE>>,got |-> 2,n |-> 2,since |-> 0]),
    ([secLive |-> TRUE,lost |-> <<TRUE, FALSE, FALSE>>,scen |-> <<2, 1>>,lockLive |-> <<FALSE, TRUE, FALSE>>,got |-> 2,n |-> 2,since |-> 0])
    >>
----


=============================================================================

---- CONFIG MC_LockSection_TTrace_1790093504 ----
CONSTANTS
    MaxLocks = 3
    K = 2
    Chained = FALSE

INVARIANT
    _inv

CHECK_DEADLOCK
    \* CHECK_DEADLOCK off because of PROPERTY or INVARIANT above.
    FALSE

INIT
    _init

NEXT
    _next

CONSTANT
    _TETrace <- _trace

ALIAS
    _expression
=============================================================================
\* Generated on Tue Sep 22 16:11:47 UTC 2026