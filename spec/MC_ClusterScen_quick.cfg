SPECIFICATION Spec
CONSTANTS
  Layouts = {"two-plain", "numa-plain", "one-down"}
  WlSets = {"none", "one-bound", "bound-unbound"}
  Strategies = {"AUTO", "FILL"}
  Counts = {1, 2}
  Reqs = {"b", "u"}
  Deltas = {"cpu+", "mem+", "mem++", "unbind", "huge"}
  Includes <- IncludesQuick
  Modes = {"fault", "crash", "cancel"}
CONSTRAINT Emit
CHECK_DEADLOCK FALSE
