SPECIFICATION Spec
CONSTANTS
  Layouts = {"two-plain", "numa-plain"}
  WlSets = {"none", "bound-unbound"}
  Strategies = {"AUTO", "FILL"}
  Counts = {2}
  Reqs = {"b", "u"}
  Deltas = {"cpu+", "mem+", "unbind", "huge"}
  Modes = {"fault", "crash"}
CONSTRAINT Emit
CHECK_DEADLOCK FALSE
