--------------------------- MODULE MC_CpuMemHist ---------------------------
(* Generator of operation histories and of drift/repair cases for the       *)
(* resource manager + cpumem plugin.  The history alphabet is the manager's  *)
(* API (alloc k instances of a request kind, rollback of the last alloc or   *)
(* realloc, realloc of a live workload by a delta kind, release, remap);     *)
(* whether a call succeeds is decided by the real code, so slots refer to    *)
(* the live list modulo its length and a rollback is offered only right      *)
(* after the operation it undoes.  TLC explores all sequences up to Depth    *)
(* after a first allocation (exhaustive) or samples deeper ones (-simulate). *)
EXTENDS Integers, Sequences, FiniteSets, TLC, Json, IOUtils

CONSTANTS NodeKinds, AllocKinds, ReallocKinds, Slots, Depth

Ops == [op : {"alloc"}, kind : AllocKinds, k : {1, 2}, w : {0}]
       \cup [op : {"realloc"}, kind : ReallocKinds, k : {0}, w : Slots]
       \cup [op : {"release"}, kind : {""}, k : {0}, w : Slots]
       \cup [op : {"remap", "rbAlloc", "rbRealloc"}, kind : {""}, k : {0}, w : {0}]

VARIABLES node, ops
vars == <<node, ops>>

LastMutating(s) ==      \* last op that is not a remap ("" if none)
    LET I == {i \in 1..Len(s) : s[i].op # "remap"} IN
    IF I = {} THEN "" ELSE s[CHOOSE i \in I : \A j \in I : j <= i].op

Enabled(o) ==
    /\ o.op = "rbAlloc" => LastMutating(ops) = "alloc"
    /\ o.op = "rbRealloc" => LastMutating(ops) = "realloc"

Init == /\ node \in NodeKinds
        /\ \E a \in {o \in Ops : o.op = "alloc" /\ o.k = 2} : ops = <<a>>
Next == /\ Len(ops) < Depth + 1
        /\ \E o \in Ops : Enabled(o) /\ ops' = Append(ops, o)
        /\ UNCHANGED node
Spec == Init /\ [][Next]_vars

\* exhaustive mode: emit complete sequences only; simulation mode (VERIF_SIM=1): same
EmitHist == (Len(ops) = Depth + 1) => PrintT(<<"INPUT", ToJson([node |-> node, ops |-> ops])>>)

=============================================================================
