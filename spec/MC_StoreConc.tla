---------------------------- MODULE MC_StoreConc ----------------------------
EXTENDS StoreConc, Json, IOUtils
MCInit == CInit /\ SInit /\ hist = <<>>
MCNext == CNext /\ UNCHANGED vars
MCSpec == MCInit /\ [][MCNext]_<<vars, pairv, q>>
Emit == q = 0 => PrintT(<<"INPUT", ToJson(pairv)>>)
=============================================================================
