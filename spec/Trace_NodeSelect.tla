--------------------------- MODULE Trace_NodeSelect ---------------------------
(* Judges the selection driver's events with NodeSelect!Select (C21) and the   *)
(* lock-order rule (C20).                                                      *)
EXTENDS NodeSelect, TraceBase
VARIABLES l
SetEq(seq, S) == Len(seq) = Cardinality(S) /\ \A i \in 1..Len(seq) : seq[i] \in S
FilterKind(x) == IF x.includes # <<>>
                 THEN (IF Cardinality(Range(x.includes)) < Len(x.includes) THEN "include-list-with-repeats" ELSE "include-list")
                 ELSE (IF x.all THEN "pod-selection-all" ELSE "pod-selection")
Expected(x) == Select(x)
SelectOK(e) == LET S == Expected(e.filter) IN
               IF S = {"!error"} THEN e.class = "err"
               ELSE IF S = {} THEN (e.class = "err" \/ (e.asked /\ e.observed = <<>>))
               ELSE e.class = "ok" /\ e.asked /\ SetEq(e.observed, S)
Why(e) == LET S == Expected(e.filter) IN
          IF S = {"!error"} THEN "missing-node-accepted"
          ELSE IF e.class # "ok" THEN "selection-failed"
          ELSE IF \E i \in 1..Len(e.observed) : e.observed[i] \notin S THEN "extra-node-selected"
          ELSE "node-missing-from-selection"
LockOrderOK(e) ==
    IF e.cls = 3 THEN e.heldcls = <<>>
    ELSE \A i \in 1..Len(e.heldcls) :
            /\ e.heldcls[i] # 3
            /\ (e.heldcls[i] < e.cls \/ (e.heldcls[i] = e.cls /\ e.heldranks[i] < e.rank))
TraceInit == l = 1 /\ f = <<>> /\ q = 0
TraceNext ==
    /\ l <= Len(Trace)
    /\ UNCHANGED <<f, q>>
    /\ LET e == Trace[l] IN
       CASE e.ev = "Select" -> Report(SelectOK(e), "C21", l, Why(e) \o "/" \o FilterKind(e.filter))
         [] e.ev = "SelLock" -> (IF e.class # "injected" THEN Report(LockOrderOK(e), "C20", l, "lock-out-of-order/capacity") ELSE TRUE)
         [] OTHER -> TRUE
    /\ l' = l + 1
TraceSpec == TraceInit /\ [][TraceNext]_<<l, f, q>>
TraceAccepted == IF TLCGet("stats").diameter - 1 = Len(Trace)
                 THEN PrintT(<<"ACCEPTED", Len(Trace)>>)
                 ELSE PrintT(<<"REJECTED", TLCGet("stats").diameter - 1, Len(Trace)>>)
=============================================================================
