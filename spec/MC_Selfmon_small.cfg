SPECIFICATION Spec
CONSTANTS
  Nodes = {"n1", "n2"}
  ScanFirst = "n1"
  Focus = "no"
  MaxOps = 5
INVARIANT DownWhenSettled
PROPERTY LapseLeadsToDown
VIEW View
CHECK_DEADLOCK FALSE
