SPECIFICATION Spec
CONSTANTS
  Nodes = {"n1", "n2"}
  Focus = FALSE
  MaxOps = 5
INVARIANT DownWhenSettled
PROPERTY LapseLeadsToDown
VIEW View
CHECK_DEADLOCK FALSE
