-------------------------------- MODULE Send --------------------------------
(***************************************************************************)
(* C29: file transfer pipeline of Calcium.SendLargeFile, per target:       *)
(*                                                                         *)
(*   producer --chunks--> buffer (capacity Cap) --sender goroutine-->      *)
(*        synchronous pipe --> engine copy (reader with a behaviour)       *)
(*                                                                         *)
(* producer: the loop over the input channel (one for all targets): it     *)
(*   blocks while a target's buffer is full; when the input ends it closes *)
(*   every buffer, waits for every copy to have reported, closes the       *)
(*   result stream.                                                        *)
(* sender:   takes a chunk, writes it to the pipe (the write completes     *)
(*   only when the reader takes the bytes or the reader's end is closed);  *)
(*   when the buffer is closed and empty it closes the pipe's write end.   *)
(* reader:   "all"     reads to end-of-file and reports success            *)
(*           "refuse"  reports an error without reading (missing target,   *)
(*                     engine rejects)                                     *)
(*           "abort"   reads one chunk, then reports an error              *)
(* ReaderCloses: whether a reader that stops closes its end of the pipe    *)
(*   and the sender then drains its buffer (the repaired code) or leaves   *)
(*   the pipe open (the code as found: the writer blocks for ever).        *)
(* Properties: Finishes (<>closed) and deadlock freedom; ExactlyOneResult; *)
(* DeliveredAll for readers that read everything.                          *)
(***************************************************************************)
EXTENDS Integers, Sequences, FiniteSets, TLC
CONSTANTS Targets, Behaviour(_), Chunks, Cap, ReaderCloses
VARIABLES left, buf, bufClosed, sender, reader, taken, results, closed
vars == <<left, buf, bufClosed, sender, reader, taken, results, closed>>

Init == /\ left = Chunks /\ buf = [t \in Targets |-> 0] /\ bufClosed = FALSE
        /\ sender = [t \in Targets |-> "idle"]      \* idle | writing | draining | done
        /\ reader = [t \in Targets |-> "reading"]   \* reading | stopped | finished
        /\ taken = [t \in Targets |-> 0] /\ results = [t \in Targets |-> 0] /\ closed = FALSE

\* the producer hands one chunk to EVERY target's buffer, one after the other: it needs room in all of them
\* (modelled as one step; blocking on the first full buffer is the same for progress)
Produce == /\ left > 0 /\ \A t \in Targets : buf[t] < Cap
           /\ left' = left - 1 /\ buf' = [t \in Targets |-> buf[t] + 1]
           /\ UNCHANGED <<bufClosed, sender, reader, taken, results, closed>>
CloseBuffers == /\ left = 0 /\ ~bufClosed /\ bufClosed' = TRUE
                /\ UNCHANGED <<left, buf, sender, reader, taken, results, closed>>
Take(t) == /\ sender[t] = "idle" /\ buf[t] > 0
           /\ buf' = [buf EXCEPT ![t] = @ - 1] /\ sender' = [sender EXCEPT ![t] = "writing"]
           /\ UNCHANGED <<left, bufClosed, reader, taken, results, closed>>
\* the pipe write completes when the reader takes the bytes ...
WriteTaken(t) == /\ sender[t] = "writing" /\ reader[t] = "reading"
                 /\ (Behaviour(t) = "abort" => taken[t] = 0) /\ Behaviour(t) # "refuse"
                 /\ taken' = [taken EXCEPT ![t] = @ + 1] /\ sender' = [sender EXCEPT ![t] = "idle"]
                 /\ UNCHANGED <<left, buf, bufClosed, reader, results, closed>>
\* ... or, in the repaired code, when the reader's end has been closed: the sender then only drains
WriteFails(t) == /\ ReaderCloses /\ sender[t] = "writing" /\ reader[t] = "stopped"
                 /\ sender' = [sender EXCEPT ![t] = "draining"]
                 /\ UNCHANGED <<left, buf, bufClosed, reader, taken, results, closed>>
Drain(t) == /\ sender[t] = "draining" /\ buf[t] > 0 /\ buf' = [buf EXCEPT ![t] = @ - 1]
            /\ UNCHANGED <<left, bufClosed, sender, reader, taken, results, closed>>
SenderEnds(t) == /\ sender[t] \in {"idle", "draining"} /\ buf[t] = 0 /\ bufClosed
                 /\ sender' = [sender EXCEPT ![t] = "done"]
                 /\ UNCHANGED <<left, buf, bufClosed, reader, taken, results, closed>>
ReaderStops(t) == /\ reader[t] = "reading"
                  /\ (Behaviour(t) = "refuse" \/ (Behaviour(t) = "abort" /\ taken[t] >= 1))
                  /\ reader' = [reader EXCEPT ![t] = "stopped"] /\ results' = [results EXCEPT ![t] = @ + 1]
                  /\ UNCHANGED <<left, buf, bufClosed, sender, taken, closed>>
ReaderEOF(t) == /\ reader[t] = "reading" /\ sender[t] = "done"
                /\ reader' = [reader EXCEPT ![t] = "finished"] /\ results' = [results EXCEPT ![t] = @ + 1]
                /\ UNCHANGED <<left, buf, bufClosed, sender, taken, closed>>
CloseStream == /\ ~closed /\ bufClosed /\ \A t \in Targets : results[t] >= 1
               /\ closed' = TRUE /\ UNCHANGED <<left, buf, bufClosed, sender, reader, taken, results>>
Next == Produce \/ CloseBuffers \/ CloseStream
        \/ \E t \in Targets : Take(t) \/ WriteTaken(t) \/ WriteFails(t) \/ Drain(t) \/ SenderEnds(t) \/ ReaderStops(t) \/ ReaderEOF(t)
Spec == Init /\ [][Next]_vars /\ WF_vars(Next)

Finishes == <>closed
NoStuck == closed \/ ENABLED Next                      \* deadlock freedom apart from the final state
ExactlyOneResult == closed => \A t \in Targets : results[t] = 1
DeliveredAll == closed => \A t \in Targets : Behaviour(t) = "all" => taken[t] = Chunks

(* ---- the case space of the conformance runs and the judgement of one observed transfer ---- *)
Sizes == {0, 1, 2047, 2048, 2049, 4096, 22529, 53248}     \* chunk size 2048: 0, 1, 1, 1, 2, 2, 12, 26 chunks
TargetSets == {"one", "two", "missing", "one+missing", "dup"}
Cases == {[size |-> z, targets |-> ts, behav |-> bh, path |-> p] : z \in Sizes, ts \in TargetSets, bh \in {"all", "refuse", "abort"}, p \in {"send", "large"}}
ValidCase(c) == /\ (c.targets = "missing" => c.behav = "all")        \* the behaviour is that of target w1
                /\ (c.path = "large" => c.size > 0)                   \* the streaming call rejects empty chunks by validation
TargetsOf(c) == CASE c.targets = "one" -> {"w1"} [] c.targets = "two" -> {"w1", "w2"} [] c.targets = "missing" -> {"zz"}
                  [] c.targets = "one+missing" -> {"w1", "zz"} [] c.targets = "dup" -> {"w1"}
ReadsAll(c, t) == t = "w2" \/ (t = "w1" /\ c.behav = "all")
=============================================================================
