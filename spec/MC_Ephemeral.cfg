SPECIFICATION Spec
CONSTANTS
  Registrants = {1, 2}
  None = 0
  MaxOps = 5
INVARIANTS Exclusive OwnerBelieves
PROPERTIES OwnerSafe LapseNoticed
CONSTRAINT Emit
CHECK_DEADLOCK FALSE
