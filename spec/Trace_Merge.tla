---------------------------- MODULE Trace_Merge ----------------------------
(* Judges Merge events recorded from cobalt.Manager.GetNodesDeployCapacity   *)
(* with scripted plugins: the result must be the order-free Merged(ans).     *)
EXTENDS Merge, TraceBase
VARIABLE l
TraceInit == l = 1
TraceNext ==
    /\ l <= Len(Trace)
    /\ LET e == Trace[l] IN
       /\ e.ev = "Merge"
       /\ Report(e.class = "ok" /\ e.extra = 0 /\ C09ok(e.ans, e.result, e.total), "C09", l,
                 IF Len(e.ans) = 1 THEN "single-plugin" ELSE "multi-plugin")
       /\ Report(e.class = "ok" => TotalOK(e.ans, e.total), "C07", l, "manager-total")
    /\ l' = l + 1
TraceSpec == TraceInit /\ [][TraceNext]_l
TraceAccepted == IF TLCGet("stats").diameter - 1 = Len(Trace)
                 THEN PrintT(<<"ACCEPTED", Len(Trace)>>)
                 ELSE PrintT(<<"REJECTED", TLCGet("stats").diameter - 1, Len(Trace)>>)
=============================================================================
