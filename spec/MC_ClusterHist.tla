--------------------------- MODULE MC_ClusterHist ---------------------------
EXTENDS ClusterHist, Json, IOUtils
Emit == (Len(hist) = MaxOps) => PrintT(<<"INPUT", ToJson([ops |-> hist])>>)
=============================================================================
