SPECIFICATION Spec
CONSTANTS
  Types = {"tA", "tB", "tU"}
  Plans <- PlansSmall
  MaxOps = 5
  Slots = {1, 2}
INVARIANTS Ordered IdsFresh HandledInOrder
PROPERTY IdsNeverReused
CONSTRAINT Emit
CHECK_DEADLOCK FALSE
