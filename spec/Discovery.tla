------------------------------ MODULE Discovery ------------------------------
(***************************************************************************)
(* C27: service discovery (store service stream + discovery/helium).       *)
(*   registered  set of core addresses with a live registration            *)
(*   latest      the endpoint set the helium loop last took from the store *)
(*               stream ("stale" while a change is still in the stream)    *)
(*   subs        subscriber -> [kind, live, last]                          *)
(*                 kind: "reader" reads every message,                     *)
(*                       "slow"   reads every message, late,               *)
(*                       "stalled" stopped reading but did not cancel      *)
(*                 last: the set in the last message it received           *)
(*   loop        "idle" | "dispatch" (sending to subscribers one by one)   *)
(* The helium loop is ONE goroutine: select {stream, unsubscribe, tick},   *)
(* then a sequential, blocking send of `latest` to every subscriber.       *)
(* Properties: Converged (when nothing is pending every live reading       *)
(* subscriber's last message = registered); UnsubscribeCompletes.          *)
(* A stalled subscriber blocks the send and with it everybody (the design  *)
(* deviation: check MC_Discovery_stalled.cfg to see TLC exhibit it).       *)
(***************************************************************************)
EXTENDS Integers, Sequences, FiniteSets, TLC
CONSTANTS Addrs, Subs, Kind(_), MaxOps
VARIABLES registered, streamq, latest, subs, loop, todo, unsubq, closedCh, hist
vars == <<registered, streamq, latest, subs, loop, todo, unsubq, closedCh, hist>>
O(op, x) == [op |-> op, x |-> x]

Init == /\ registered = {} /\ streamq = <<>> /\ latest = {} /\ subs = [s \in {} |-> 0] /\ loop = "idle" /\ todo = {}
        /\ unsubq = {} /\ closedCh = {} /\ hist = <<>>
Live == DOMAIN subs
\* environment
Register(a) == /\ a \notin registered /\ registered' = registered \cup {a} /\ streamq' = Append(streamq, registered \cup {a})
               /\ UNCHANGED <<latest, subs, loop, todo, unsubq, closedCh>>
Deregister(a) == /\ a \in registered /\ registered' = registered \ {a} /\ streamq' = Append(streamq, registered \ {a})
                 /\ UNCHANGED <<latest, subs, loop, todo, unsubq, closedCh>>
Subscribe(s) == /\ s \notin Live /\ s \notin closedCh /\ s \notin unsubq
                /\ subs' = [x \in Live \cup {s} |-> IF x = s THEN [kind |-> Kind(s), last |-> {"?"}] ELSE subs[x]]
                /\ UNCHANGED <<registered, streamq, latest, loop, todo, unsubq, closedCh>>
Unsubscribe(s) == /\ s \in Live /\ s \notin unsubq /\ unsubq' = unsubq \cup {s}      \* context cancelled + id handed to the loop
                  /\ UNCHANGED <<registered, streamq, latest, subs, loop, todo, closedCh>>
\* short-lived subscribers come and go - one unsubscribes while the next one subscribes - and are all gone afterwards:
\* nothing the other subscribers can observe changes (the subscriber registry is shared by the callers of Subscribe and
\* the loop: the code must keep it consistent under exactly this overlap)
Churn == UNCHANGED <<registered, streamq, latest, subs, loop, todo, unsubq, closedCh>>
\* the loop
TakeStream == /\ loop = "idle" /\ streamq # <<>> /\ latest' = Head(streamq) /\ streamq' = Tail(streamq)
              /\ loop' = "dispatch" /\ todo' = Live /\ UNCHANGED <<registered, subs, unsubq, closedCh>>
TakeUnsub(s) == /\ loop = "idle" /\ s \in unsubq /\ unsubq' = unsubq \ {s} /\ closedCh' = closedCh \cup {s}
                /\ subs' = [x \in Live \ {s} |-> subs[x]] /\ loop' = "dispatch" /\ todo' = Live \ {s}
                /\ UNCHANGED <<registered, streamq, latest>>
Tick == /\ loop = "idle" /\ loop' = "dispatch" /\ todo' = Live /\ UNCHANGED <<registered, streamq, latest, subs, unsubq, closedCh>>
SendTo(s) == /\ loop = "dispatch" /\ s \in todo
             /\ \/ (s \in unsubq /\ UNCHANGED subs)                                     \* its context is done: skipped
                \/ (s \notin unsubq /\ subs[s].kind # "stalled" /\ subs' = [subs EXCEPT ![s].last = latest])
             /\ todo' = todo \ {s} /\ UNCHANGED <<registered, streamq, latest, loop, unsubq, closedCh>>
EndDispatch == /\ loop = "dispatch" /\ todo = {} /\ loop' = "idle" /\ UNCHANGED <<registered, streamq, latest, subs, todo, unsubq, closedCh>>

Env == \/ \E a \in Addrs : (Register(a) /\ hist' = Append(hist, O("reg", a))) \/ (Deregister(a) /\ hist' = Append(hist, O("dereg", a)))
       \/ \E s \in Subs : (Subscribe(s) /\ hist' = Append(hist, O("sub", s))) \/ (Unsubscribe(s) /\ hist' = Append(hist, O("unsub", s)))
       \/ (Churn /\ (IF hist = <<>> THEN TRUE ELSE hist[Len(hist)].op # "churn") /\ hist' = Append(hist, O("churn", "")))
Loop == (TakeStream \/ Tick \/ EndDispatch \/ \E s \in Subs : TakeUnsub(s) \/ SendTo(s)) /\ UNCHANGED hist
Next == (Len(hist) < MaxOps /\ Env) \/ Loop
L(A) == A /\ UNCHANGED hist
\* Go's select picks at random among the ready cases: a case that is ready again and again is eventually taken (strong fairness)
Spec == Init /\ [][Next]_vars /\ SF_vars(L(TakeStream)) /\ WF_vars(L(EndDispatch)) /\ SF_vars(L(Tick))
             /\ \A s \in Subs : SF_vars(L(TakeUnsub(s))) /\ WF_vars(L(SendTo(s)))

Reading(s) == s \in Live /\ s \notin unsubq /\ subs[s].kind # "stalled"
\* after the last change has gone through the loop and one more round (tick), readers hold the registered set
Converges == \A s \in Subs : [](Len(hist) = MaxOps => <>(Reading(s) => subs[s].last = registered))
UnsubscribeCompletes == \A s \in Subs : (s \in unsubq ~> s \in closedCh)
=============================================================================
