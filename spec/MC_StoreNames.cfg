SPECIFICATION Spec
CONSTANTS
  AppNames = {"a", "b", "a_b", "a/b", "/a", "a*", "a?", "[ab]", "a.b", ".."}
  EntryNames = {"x", "y", "b", "b/x", "a*"}
  NodeNames = {"n1", "n2", "x/n1", "n1/w"}
  Segs <- MCSegs
INVARIANT KeysExactForPlainNames
CONSTRAINT Emit
CHECK_DEADLOCK FALSE
