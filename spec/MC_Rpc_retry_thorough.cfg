SPECIFICATION Spec
CONSTANTS
  Users = {"x"}
  Passwords = {"pw"}
  MaxLives = 3
  MsgCounts = {0, 1, 2}
  Maxes = {0, 1, 2}
  CancelAts <- CancelDef
  Methods = {"wss", "watch", "list"}
  Mode = "retry"
CONSTRAINT Emit
CHECK_DEADLOCK FALSE
