-------------------------- MODULE Trace_StoreNames --------------------------
(* Judges the C24 driver's events with StoreNames' record-level reference:   *)
(* every list / deploy-status answer must equal List / Count over the        *)
(* workloads whose creation succeeded, and every accepted name must parse    *)
(* back.  The failure signature names the backend, the query kind and the    *)
(* class of names involved (path-like, glob-like, plain), so that the        *)
(* predicted key-layout collisions are told from anything else.              *)
EXTENDS Integers, Sequences, FiniteSets, TLC, TraceBase
VARIABLES l
NoSegs(name) == <<name>>
INSTANCE StoreNames WITH AppNames <- {}, EntryNames <- {}, NodeNames <- {}, Segs <- NoSegs, ws <- <<>>, q <- 0

AsW(w) == [id |-> w.id, app |-> w.app, entry |-> w.entry, node |-> w.node]
SetEq(seq, S) == Len(seq) = Cardinality(S) /\ \A i \in 1..Len(seq) : seq[i] \in S
Added(e, b) == {w \in {e.ws[i] : i \in 1..Len(e.ws)} :
                  \E i \in 1..Len(e.queries) : LET x == e.queries[i] IN x.k = "add" /\ x.b = b /\ x.ids = <<w.id>> /\ x.class = "ok"}
NameClass(e) == IF e.flags.dots THEN "dot-name" ELSE IF e.flags.slash THEN "path-like-name" ELSE IF e.flags.glob THEN "glob-like-name" ELSE "plain-name"
\* the named deviation: the answer is what the path-joined key layout yields (StoreNames!KeyListF / KeyCountF)
AsLayout(e, x) ==
    LET S == {AsW(w) : w \in Added(e, x.b)} IN
    CASE x.k = "list"   -> x.class = "ok" /\ SetEq(x.ids, KeyListF(e.segs, S, x.a, x.e, x.n))
      [] x.k = "deploy" -> /\ x.class = "ok"
                           /\ \A i \in 1..Len(x.counts) : x.counts[i].n = KeyCountF(e.segs, S, x.a, x.e, x.counts[i].node)
                           /\ \A w \in KeyMatchF(e.segs, S, x.a, x.e, "") : \E i \in 1..Len(x.counts) : x.counts[i].node = KeyNodeF(e.segs, w)
      [] OTHER -> TRUE
Why(e, b, B) == IF NameClass(e) = "dot-name" THEN "dot-name" ELSE IF b = "redis" /\ e.flags.glob THEN "glob-like-name" ELSE IF \A i \in B : AsLayout(e, e.queries[i]) THEN "answers-follow-key-layout/" \o NameClass(e)
             ELSE "unexplained/" \o NameClass(e)
QueryOK(e, x) ==
    LET S == {AsW(w) : w \in Added(e, x.b)} IN
    CASE x.k = "list"   -> x.class = "ok" /\ SetEq(x.ids, List(S, x.a, x.e, x.n))
      [] x.k = "deploy" -> /\ x.class = "ok"
                           /\ \A i \in 1..Len(x.counts) : x.counts[i].n = Count(S, x.a, x.e, x.counts[i].node)
                           /\ \A w \in S : Match(w, x.a, x.e, "") => \E i \in 1..Len(x.counts) : x.counts[i].node = w.node
      [] OTHER -> TRUE
Bad(e, b, k) == {i \in 1..Len(e.queries) : e.queries[i].b = b /\ e.queries[i].k = k /\ ~QueryOK(e, e.queries[i])}
ParseOK(w) == ~w.perr /\ w.papp = w.app /\ w.pentry = w.entry /\ w.pident = "ident"

TraceInit == l = 1
TraceNext ==
    /\ l <= Len(Trace)
    /\ LET e == Trace[l] IN
       /\ \A b \in {"etcd", "redis"}, k \in {"list", "deploy"} : Report(Bad(e, b, k) = {}, "C24", l, k \o "/" \o b \o "/" \o Why(e, b, Bad(e, b, k)))
       /\ Report(\A i \in 1..Len(e.ws) : ParseOK(e.ws[i]), "C24", l, "name-does-not-parse-back/" \o
                 (IF \A i \in 1..Len(e.ws) : ParseOK(e.ws[i]) \/ e.segs[e.ws[i].app][1] = "" THEN "leading-slash-in-app-name" ELSE "other"))
    /\ l' = l + 1
TraceSpec == TraceInit /\ [][TraceNext]_l
TraceAccepted == IF TLCGet("stats").diameter - 1 = Len(Trace)
                 THEN PrintT(<<"ACCEPTED", Len(Trace)>>)
                 ELSE PrintT(<<"REJECTED", TLCGet("stats").diameter - 1, Len(Trace)>>)
=============================================================================
