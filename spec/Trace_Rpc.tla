----------------------------- MODULE Trace_Rpc -----------------------------
EXTENDS Rpc, TraceBase
VARIABLE l
TraceInit == l = 1
TraceNext ==
    /\ l <= Len(Trace)
    /\ LET e == Trace[l] IN
       CASE e.ev = "Auth" -> Report(C35ok(e.in, e.unary, e.stream, e.served), "C35", l,
                                    IF Lower(e.in.srvU) # e.in.srvU THEN "mixed-case-user" ELSE "lower-case-user")
         [] e.ev = "Retry" -> Report(e.final # "runaway" /\ C36ok(e.in, e.delivered, e.serverStreams, e.requests, e.streamsAtCancel), "C36", l,
                                    e.in.method \o (IF e.in.cancelAt >= 0 THEN "/cancel" ELSE ""))
         [] e.ev = "Crash" -> Report(FALSE, "C36", l, "crash")
    /\ l' = l + 1
TraceSpec == TraceInit /\ [][TraceNext]_l
TraceAccepted == IF TLCGet("stats").diameter - 1 = Len(Trace)
                 THEN PrintT(<<"ACCEPTED", Len(Trace)>>)
                 ELSE PrintT(<<"REJECTED", TLCGet("stats").diameter - 1, Len(Trace)>>)
=============================================================================
