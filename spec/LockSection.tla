---------------------------- MODULE LockSection ----------------------------
(***************************************************************************)
(* C19 at the level where the cluster uses it (cluster/calcium/lock.go:    *)
(* withNodesLocked, withWorkloadsLocked): a critical section takes N locks *)
(* one after the other, each Lock call is given the context returned by    *)
(* the previous one, and the section body runs under the context returned  *)
(* by the last one.  Every lock's own context is cancelled when that lock  *)
(* is lost (Lock.tla: Notice); because the contexts are chained, the       *)
(* section's context is done as soon as ANY of its locks' contexts is.     *)
(*                                                                         *)
(* Chained = TRUE is the design; Chained = FALSE is the deviation "each    *)
(* Lock call starts from the caller's context", under which the section    *)
(* only follows its last lock: the same invariants must fail (the model    *)
(* tells the two apart: MC_LockSection_lastonly.cfg).                      *)
(***************************************************************************)
EXTENDS Integers, FiniteSets, TLC
CONSTANTS MaxLocks, K, Chained
VARIABLES n, got, lockLive, lost, secLive, since, scen
vars == <<n, got, lockLive, lost, secLive, since, scen>>
Idx == 1..MaxLocks
Init == /\ n \in 1..MaxLocks /\ got = 0 /\ lockLive = [i \in Idx |-> FALSE] /\ lost = [i \in Idx |-> FALSE]
        /\ secLive = FALSE /\ since = 0 /\ scen = <<>>
\* the next lock in key order; its context derives from the previous lock's context (or the caller's)
Acquire == /\ got < n /\ got' = got + 1 /\ lockLive' = [lockLive EXCEPT ![got + 1] = IF Chained THEN (got = 0 \/ lockLive[got]) ELSE TRUE]
           /\ secLive' = lockLive'[got + 1] /\ UNCHANGED <<n, lost, since, scen>>
InSection == got = n
\* the backend drops lock i's record (lease revoked / TTL elapsed) while the section body runs
Expire(i) == /\ InSection /\ i <= n /\ ~lost[i] /\ \A j \in Idx : ~lost[j]
             /\ lost' = [lost EXCEPT ![i] = TRUE] /\ since' = 0 /\ scen' = <<n, i>> /\ UNCHANGED <<n, got, lockLive, secLive>>
\* lock i's watcher cancels lock i's context; derived contexts (later locks', the section's) are done with it
Notice(i) == /\ lost[i] /\ lockLive[i]
             /\ lockLive' = [j \in Idx |-> IF j = i \/ (Chained /\ j > i) THEN FALSE ELSE lockLive[j]]
             /\ secLive' = (secLive /\ lockLive'[n]) /\ UNCHANGED <<n, got, lost, since, scen>>
Tick == /\ \A i \in Idx : (lost[i] /\ lockLive[i]) => since < K
        /\ since' = (IF \E i \in Idx : lost[i] /\ lockLive[i] THEN since + 1 ELSE since) /\ since < K + 2
        /\ UNCHANGED <<n, got, lockLive, lost, secLive, scen>>
Next == Acquire \/ Tick \/ \E i \in Idx : Expire(i) \/ Notice(i)
Spec == Init /\ [][Next]_vars /\ \A i \in Idx : WF_vars(Notice(i))

\* the section's context is live only while every one of its locks' contexts is
SectionFollowsLocks == (InSection /\ secLive) => \A i \in 1..n : lockLive[i]
\* C19 for the section: it never runs with a live context for longer than K after one of its locks was lost
SectionToldBounded == (InSection /\ secLive /\ \E i \in Idx : lost[i]) => since <= K
SectionIsTold == \A i \in Idx : lost[i] ~> ~secLive
=============================================================================
