--------------------------- MODULE Trace_StoreConc ---------------------------
(* Judges concurrent store runs: counts observed inside the window and at the  *)
(* end against the bounds, and the final state against the two sequential      *)
(* orders of Store!Apply.                                                      *)
EXTENDS StoreConc, TraceBase
VARIABLES l
\* sequential reference: the deploy count of (a, x) on n1 after applying calls in order from the pre-state
Rec(S) == Cardinality({w \in S : AppOf(w) = "a" /\ EntryOf(w) = "x"})
\* abstract pre-state: recorded set and marker
PreRec(pre) == IF pre = "marker+w1" THEN {"w1"} ELSE {}
\* effect of one call on <<recorded set, marker (-1 = absent)>>: the count-relevant projection of Store!Effect
Eff(st, o) ==
  LET R == st[1]  m == st[2] IN
  CASE o.op = "AddWorkload" /\ o.c # "" -> IF m >= 0 THEN <<R \cup {o.a}, m - 1>> ELSE st
    [] o.op = "AddWorkload" /\ o.c = ""  -> IF o.a \in R THEN st ELSE <<R \cup {o.a}, m>>
    [] o.op = "RemoveWorkload" -> <<R \ {o.a}, m>>
    [] o.op = "UpdateWorkload" -> st
    [] o.op = "DeleteProc" -> <<R, -1>>
    [] o.op = "CreateProc" -> IF m >= 0 THEN st ELSE <<R, 2>>
Count(st) == Rec(st[1]) + (IF st[2] >= 0 THEN st[2] ELSE 0)
Pre(e) == <<PreRec(e.pre), 2>>
SeqAB(e) == Eff(Eff(Pre(e), e.a), e.b)
SeqBA(e) == Eff(Eff(Pre(e), e.b), e.a)
Name(e) == e.a.op \o (IF e.a.c # "" /\ e.a.op = "AddWorkload" THEN "+marker" ELSE "") \o "||" \o e.b.op \o (IF e.b.c # "" /\ e.b.op = "AddWorkload" THEN "+marker" ELSE "")
TraceInit == l = 1 /\ SInit /\ hist = <<>> /\ pairv = <<>> /\ q = 0
TraceNext ==
    /\ l <= Len(Trace)
    /\ UNCHANGED <<vars, pairv, q>>
    /\ LET e == Trace[l] IN
       /\ Report(e.classA # "panic" /\ e.classB # "panic", "C13", l, "store-call-panicked/" \o Name(e))
       \* in the window (A parked, B done) and at the end: recorded <= count; count <= prior + planned while only adds / removes happen
       /\ Report(e.mid.rec <= e.mid.ds /\ e.mid2.rec <= e.mid2.ds, "C13", l, "count-below-recorded-workloads/in-window/" \o Name(e))
       /\ Report(e.fin.rec <= e.fin.ds, "C13", l, "count-below-recorded-workloads/at-end/" \o Name(e))
       \* (when both calls are instances of the deployment)
       /\ Report((e.a.op = "AddWorkload" /\ e.b.op = "AddWorkload" /\ e.a.c # "" /\ e.b.c # "") => (e.mid.ds <= Rec(PreRec(e.pre)) + 2 /\ e.mid2.ds <= Rec(PreRec(e.pre)) + 2 /\ e.fin.ds <= Rec(PreRec(e.pre)) + 2),
                 "C13", l, "count-above-prior-plus-planned/" \o Name(e))
       \* linearizability of the pair with respect to the count and the recorded set
       /\ Report(e.classA = "panic" \/ e.classB = "panic" \/ <<e.fin.rec, e.fin.ds>> \in {<<Rec(SeqAB(e)[1]), Count(SeqAB(e))>>, <<Rec(SeqBA(e)[1]), Count(SeqBA(e))>>},
                 "C13", l, "final-count-matches-no-sequential-order/" \o Name(e))
    /\ l' = l + 1
TraceSpec == TraceInit /\ [][TraceNext]_<<l, vars, pairv, q>>
TraceAccepted == IF TLCGet("stats").diameter - 1 = Len(Trace)
                 THEN PrintT(<<"ACCEPTED", Len(Trace)>>)
                 ELSE PrintT(<<"REJECTED", TLCGet("stats").diameter - 1, Len(Trace)>>)
=============================================================================
