SPECIFICATION Spec
CONSTANTS
  Registrants = {1, 2, 3}
  None = 0
  MaxOps = 6
INVARIANTS Exclusive OwnerBelieves
PROPERTIES OwnerSafe LapseNoticed
CONSTRAINT Emit
CHECK_DEADLOCK FALSE
