-------------------------------- MODULE Txn --------------------------------
(***************************************************************************)
(* utils.Txn / utils.PCR (utils/transaction.go), property C17.             *)
(*                                                                         *)
(* One run: a condition step, an optional follow-up step, an optional      *)
(* rollback, the caller's cancellation arriving at any point.  Every step  *)
(* is two actions (Begin/End) so that Cancel can land "during" it.  What a *)
(* step sees of the caller's cancellation is part of the state: cond (and  *)
(* then, when a rollback exists) run under a context derived from the      *)
(* caller's; rollback - and then when there is NO rollback - run under a   *)
(* detached context that the caller cannot cancel.                         *)
(***************************************************************************)
EXTENDS Integers, Sequences, TLC

Outcomes == {"ok", "fail"}
Inputs == [form : {"txn", "pcr"}, cond : Outcomes, then : Outcomes \cup {"absent"},
           rb : Outcomes \cup {"absent"}]

VARIABLES in, pc, cancelled, sees, ranThen, rbCount, rbByCond, ret
vars == <<in, pc, cancelled, sees, ranThen, rbCount, rbByCond, ret>>
\* sees: what the running step's context reports (TRUE = cancelled) at its latest observation

Failed == in.cond = "fail" \/ (ranThen /\ in.then = "fail")
\* PCR wraps the caller's rollback: it is skipped when prepare (the condition) failed
RbWanted == /\ Failed /\ in.rb # "absent"
            /\ (in.form = "pcr" => in.cond = "ok")
FirstFailure == IF in.cond = "fail" THEN "cond" ELSE IF ranThen /\ in.then = "fail" THEN "then" ELSE "none"

Init(i) == /\ in = i /\ pc = "start" /\ cancelled = FALSE /\ sees = FALSE
           /\ ranThen = FALSE /\ rbCount = 0 /\ rbByCond = FALSE /\ ret = "pending"

Cancel == /\ ~cancelled /\ pc # "done"
          /\ cancelled' = TRUE
          /\ UNCHANGED <<in, pc, sees, ranThen, rbCount, rbByCond, ret>>

BeginCond == /\ pc = "start" /\ pc' = "inCond" /\ sees' = cancelled
             /\ UNCHANGED <<in, cancelled, ranThen, rbCount, rbByCond, ret>>
EndCond == /\ pc = "inCond" /\ sees' = cancelled
           /\ pc' = IF in.cond = "ok" /\ in.then # "absent" THEN "beforeThen" ELSE "afterSteps"
           /\ UNCHANGED <<in, cancelled, ranThen, rbCount, rbByCond, ret>>
ThenDetached == in.rb = "absent"
BeginThen == /\ pc = "beforeThen" /\ pc' = "inThen" /\ ranThen' = TRUE
             /\ sees' = IF ThenDetached THEN FALSE ELSE cancelled
             /\ UNCHANGED <<in, cancelled, rbCount, rbByCond, ret>>
EndThen == /\ pc = "inThen" /\ pc' = "afterSteps"
           /\ sees' = IF ThenDetached THEN FALSE ELSE cancelled
           /\ UNCHANGED <<in, cancelled, ranThen, rbCount, rbByCond, ret>>
BeginRb == /\ pc = "afterSteps" /\ RbWanted /\ rbCount = 0
           /\ pc' = "inRb" /\ rbCount' = 1 /\ rbByCond' = (in.cond = "fail") /\ sees' = FALSE
           /\ UNCHANGED <<in, cancelled, ranThen, ret>>
EndRb == /\ pc = "inRb" /\ pc' = "afterRb" /\ sees' = FALSE
         /\ UNCHANGED <<in, cancelled, ranThen, rbCount, rbByCond, ret>>
Return == /\ (pc = "afterSteps" /\ ~RbWanted) \/ pc = "afterRb"
          /\ pc' = "done" /\ ret' = FirstFailure
          /\ UNCHANGED <<in, cancelled, sees, ranThen, rbCount, rbByCond>>

Next == Cancel \/ BeginCond \/ EndCond \/ BeginThen \/ EndThen \/ BeginRb \/ EndRb \/ Return
Spec == (\E i \in Inputs : Init(i)) /\ [][Next]_vars /\ WF_vars(Next)

(* ---- C17 as properties of the machine ---- *)
ThenIffCondOk == pc = "done" => (ranThen <=> (in.cond = "ok" /\ in.then # "absent"))
RollbackIffFailed == pc = "done" => (rbCount = (IF RbWanted THEN 1 ELSE 0))
RollbackOnce == rbCount <= 1
RollbackToldWhy == rbCount = 1 => (rbByCond <=> in.cond = "fail")
ReturnsFirstFailure == pc = "done" => ret = FirstFailure
RollbackUninterruptible == pc \in {"inRb", "afterRb"} => ~sees
PcrRollsBackOnlyCommit == (in.form = "pcr" /\ rbCount = 1) => (in.cond = "ok" /\ in.then = "fail")
Finishes == <>(pc = "done")
=============================================================================
