SPECIFICATION Spec
CONSTANTS
  TTLs = {4}
  Ticks = {3, 7}
  MaxOps = 5
  StatusOnly = FALSE
  MaxTime = 14
INVARIANTS TypeOK BoundToEntity
CHECK_DEADLOCK FALSE
