----------------------------- MODULE Trace_Lock -----------------------------
(* Validates lock traces recorded from real lock objects (etcd / redis).    *)
(* State rebuilt from the events: who is inside the critical section, who   *)
(* has lost its lock (Expire is logged just before the backend drops the    *)
(* record), when, and whether its lock context has been cancelled.          *)
EXTENDS Integers, Sequences, FiniteSets, TLC, TraceBase
VARIABLES l, backend, ttl, inCS, lostAt, told, loss
tvars == <<l, backend, ttl, inCS, lostAt, told, loss>>
\* lostAt: function client -> time of Expire (or -1); told: clients whose context was cancelled

NoLoss == [c \in {1, 2} |-> -1]
\* one keepalive interval + scheduling allowance (ms).  The etcd client sends a lease's keepalive from a loop that wakes
\* every 500 ms (client/v3 lease.go: sendKeepAliveLoop, retryConnWait), so its keepalives are ttl/3 .. ttl/3 + 500 ms apart.
KBound == (ttl \div 3) + 700 + (IF backend = "etcd" THEN 500 ELSE 0)
Lost == {c \in DOMAIN lostAt : lostAt[c] >= 0}

TraceInit == l = 1 /\ backend = "" /\ ttl = 0 /\ inCS = {} /\ lostAt = NoLoss /\ told = {} /\ loss = FALSE
TraceNext ==
    /\ l <= Len(Trace)
    /\ LET e == Trace[l] IN
       CASE e.ev \in {"LockRun", "LossRun"} ->
              /\ backend' = e.backend /\ ttl' = e.ttlMs /\ inCS' = {} /\ lostAt' = NoLoss /\ told' = {}
              /\ loss' = (e.ev = "LossRun")
         [] e.ev = "Enter" ->
              \* C18: nobody else who still owns its lease is inside
              /\ Report((inCS \ Lost) \ {e.c} = {}, "C18", l, "mutual-exclusion/" \o backend)
              /\ inCS' = inCS \cup {e.c} /\ UNCHANGED <<backend, ttl, lostAt, told, loss>>
         [] e.ev = "Exit" ->
              /\ inCS' = inCS \ {e.c} /\ UNCHANGED <<backend, ttl, lostAt, told, loss>>
         [] e.ev = "Fail" ->
              /\ Report(e.kind = "try" => e.durMs <= 400, "C18", l, "try-lock-waited/" \o backend)
              /\ Report((e.kind = "lock" /\ ~loss) => e.durMs >= ttl - 600, "C18", l, "waiter-gave-up-early/" \o backend)
              /\ UNCHANGED <<backend, ttl, inCS, lostAt, told, loss>>
         [] e.ev = "Expire" ->
              /\ lostAt' = [lostAt EXCEPT ![e.c] = e.t] /\ UNCHANGED <<backend, ttl, inCS, told, loss>>
         [] e.ev = "CtxDone" ->
              /\ Report(lostAt[e.c] >= 0 => e.t - lostAt[e.c] <= KBound, "C19", l, "told-late/" \o backend)
              /\ told' = told \cup {e.c} /\ UNCHANGED <<backend, ttl, inCS, lostAt, loss>>
         [] e.ev = "CtxStillLive" ->
              /\ Report(FALSE, "C19", l, "lock-context-never-cancelled/" \o backend)
              /\ UNCHANGED <<backend, ttl, inCS, lostAt, told, loss>>
         [] e.ev = "LossRunEnd" ->
              /\ Report(\A c \in Lost : c \in told, "C19", l, "lost-holder-not-told/" \o backend)
              /\ UNCHANGED <<backend, ttl, inCS, lostAt, told, loss>>
         [] e.ev \in {"LockRunEnd", "LockErr"} -> UNCHANGED <<backend, ttl, inCS, lostAt, told, loss>>
    /\ l' = l + 1
TraceSpec == TraceInit /\ [][TraceNext]_tvars
TraceAccepted == IF TLCGet("stats").diameter - 1 = Len(Trace)
                 THEN PrintT(<<"ACCEPTED", Len(Trace)>>)
                 ELSE PrintT(<<"REJECTED", TLCGet("stats").diameter - 1, Len(Trace)>>)
=============================================================================
