SPECIFICATION Spec
CONSTANTS
  NodeKinds = {"numa4", "share3", "plain4"}
  AllocKinds = {"b10", "b05", "b15", "u05", "ulim"}
  ReallocKinds = {"cpu+", "cpu-", "mem+", "mem-", "keep", "unbind", "bind", "memlim+", "cpureq-"}
  Slots = {1, 2}
  Depth = 3
CONSTRAINT EmitHist
CHECK_DEADLOCK FALSE
