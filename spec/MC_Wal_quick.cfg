SPECIFICATION Spec
CONSTANTS
  Types = {"tA", "tU"}
  Plans <- PlansTiny
  MaxOps = 4
  Slots = {1, 2}
INVARIANTS Ordered IdsFresh HandledInOrder
PROPERTY IdsNeverReused
CONSTRAINT Emit
CHECK_DEADLOCK FALSE
