SPECIFICATION Spec
CONSTANTS
  TTLs = {4, 8}
  Ticks = {3, 7}
  MaxOps = 6
  StatusOnly = TRUE
  MaxTime = 30
INVARIANT TypeOK
CONSTRAINT Emit
CHECK_DEADLOCK FALSE
