SPECIFICATION MCSpec
CONSTANTS
  INF = 1000000
  Strats = {"AUTO", "GLOBAL", "DRAINED", "EACH", "FILL"}
  MaxN = 3
  Caps = {0, 1, 2, 3, 1000000}
  CapsG = {0, 1, 2, 1000000}
  Counts = {0, 1, 2, 3}
  Us = {0, 1, 2, 3}
  UsD = {0, 1, 2}
  Rs = {1, 2}
  Needs = {1, 2, 3, 4, 5}
  Limits = {0, 1, 2, 3}
INVARIANTS ModelC01 ModelC02 ModelC03 ComparatorsOK
CONSTRAINT EmitInputs
PROPERTY Terminates
CHECK_DEADLOCK FALSE
