SPECIFICATION Spec
CONSTANTS
  Clients = {c1, c2, c3}
  None = None
  K = 2
INVARIANTS Mutex OwnerIsHolder CoexistBounded
PROPERTY LostIsTold
CHECK_DEADLOCK FALSE
