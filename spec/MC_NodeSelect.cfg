SPECIFICATION Spec
CONSTANTS
  IncludeNames = {"n1", "n2", "n3", "n4", "n2b", "zz"}
  MaxIncludes = 3
CONSTRAINT Emit
CHECK_DEADLOCK FALSE
