SPECIFICATION Spec
CONSTANTS
  Cpu100s = {0, 29, 50, 57, 100, 115, 150, 200, 257}
  NCore = 3
  MemMiBs = {0, 4, 512}
CONSTRAINT Emit
CHECK_DEADLOCK FALSE
