---------------------------- MODULE MC_Strategy ----------------------------
(* Bounded instance of Strategy: enumerates every input within the constants *)
(* as an initial state, explores the step machine for each, and (when the   *)
(* environment variable VERIF_EMIT is "1") prints each input once as JSON so *)
(* the Go replayer can run the REAL strategy.Deploy on exactly these inputs. *)
(* Per strategy only the fields that strategy reads are varied.             *)
EXTENDS Strategy, Json, IOUtils

CONSTANTS Strats, MaxN, Caps, CapsG, Counts, Us, UsD, Rs, Needs, Limits

Seqs(S) == UNION {[1..n -> S] : n \in 1..MaxN}
InputsFor(s) ==
    CASE s = "AUTO"    -> [s : {s}, infos : Seqs([cap : Caps, count : Counts, u : {0}, r : {1}]), need : Needs, limit : Limits]
      [] s = "GLOBAL"  -> [s : {s}, infos : Seqs([cap : CapsG, count : {0}, u : Us, r : Rs]), need : Needs, limit : {0}]
      [] s = "DRAINED" -> [s : {s}, infos : Seqs([cap : Caps, count : {0}, u : UsD, r : {1}]), need : Needs, limit : {0}]
      [] s = "EACH"    -> [s : {s}, infos : Seqs([cap : Caps, count : {0}, u : {0}, r : {1}]), need : Needs, limit : Limits]
      [] s = "FILL"    -> [s : {s}, infos : Seqs([cap : Caps, count : Counts, u : {0}, r : {1}]), need : Needs, limit : Limits]
Inputs == UNION {InputsFor(s) : s \in Strats}

MCInit == \E i \in Inputs : InitFor(i)
MCSpec == MCInit /\ [][Next]_vars /\ WF_vars(Next)

Emit == IOEnv.VERIF_EMIT = "1"
EmitInputs == (Emit /\ pc = "start") => PrintT(<<"INPUT", ToJson(inp)>>)
=============================================================================
