------------------------------- MODULE MC_Wal -------------------------------
EXTENDS Wal, Json, IOUtils
PlansDef == {<<"ok">>, <<"err", "ok">>, <<"notNeeded">>, <<"decodeErr", "decodeErr">>, <<"err", "err">>}
PlansSmall == {<<"ok">>, <<"err", "ok">>, <<"notNeeded">>, <<"decodeErr", "decodeErr">>}
PlansTiny == {<<"ok">>, <<"err", "ok">>, <<"notNeeded">>}
Emit == (Len(hist) = MaxOps) => PrintT(<<"INPUT", ToJson([ops |-> hist])>>)
=============================================================================
