SPECIFICATION Spec
CONSTANTS
  MaxOps = 7
INVARIANT TruthAfterWait
CONSTRAINT Emit
CHECK_DEADLOCK FALSE
