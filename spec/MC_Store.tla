------------------------------ MODULE MC_Store ------------------------------
EXTENDS Store, Json, IOUtils
Emit == (Len(hist) = MaxOps) => PrintT(<<"INPUT", ToJson([ops |-> hist])>>)
=============================================================================
