SPECIFICATION TraceSpec
CONSTANTS INF = 1000000
POSTCONDITION TraceAccepted
CHECK_DEADLOCK FALSE
