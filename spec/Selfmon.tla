------------------------------- MODULE Selfmon -------------------------------
(***************************************************************************)
(* C28: a failed node's workloads are reported down.                       *)
(*   alive[n]     the node's heartbeat status exists                       *)
(*   wls[n]       workloads recorded on n, each with the status the store  *)
(*                shows: "up" (running, healthy) or "down"                 *)
(*   watcher      "off" | "on"  (the active node-status watcher)           *)
(*   pending      nodes whose lapse the watcher still has to handle        *)
(*   scanned      nodes the watcher's initial scan has looked at           *)
(* Environment: Heartbeat, Lapse (status deleted or expired), NewWorkload, *)
(* AgentReports (the node's agent reports its workloads up again), Start.  *)
(* Watcher: Scan(n) (initial scan: a node without status counts as lapsed),*)
(* Handle(n) (SetNode with workloads-down: every workload recorded on n at *)
(* that moment is marked down).                                            *)
(* Property: Lapse(n) with the watcher on (or started later) leads to all  *)
(* workloads of n being down, unless the node comes back first.            *)
(***************************************************************************)
EXTENDS Integers, Sequences, FiniteSets, SequencesExt, TLC
CONSTANTS Nodes, MaxOps, Focus     \* Focus: the watcher runs and each node has a workload from the start; only heartbeat / lapse / agent report follow
VARIABLES alive, wls, watcher, pending, scanned, hist
vars == <<alive, wls, watcher, pending, scanned, hist>>
O(op, n) == [op |-> op, n |-> n]

Init == IF Focus
        THEN /\ alive = [n \in Nodes |-> TRUE] /\ wls = [n \in Nodes |-> <<"up">>] /\ watcher = "on" /\ pending = {} /\ scanned = {}
             /\ hist = <<O("start", "")>> \o [i \in 1..Cardinality(Nodes) |-> O("addwl", SetToSeq(Nodes)[i])]
        ELSE /\ alive = [n \in Nodes |-> TRUE] /\ wls = [n \in Nodes |-> <<>>] /\ watcher = "off"
             /\ pending = {} /\ scanned = {} /\ hist = <<>>
AllDown(n) == \A i \in 1..Len(wls[n]) : wls[n][i] = "down"

Heartbeat(n) == /\ alive' = [alive EXCEPT ![n] = TRUE] /\ UNCHANGED <<wls, watcher, pending, scanned>>
Lapse(n) == /\ alive[n] /\ alive' = [alive EXCEPT ![n] = FALSE]
            /\ pending' = (IF watcher = "on" THEN pending \cup {n} ELSE pending)    \* a stream event only reaches a running watcher
            /\ UNCHANGED <<wls, watcher, scanned>>
NewWorkload(n) == /\ alive[n] /\ Len(wls[n]) < 2 /\ wls' = [wls EXCEPT ![n] = Append(@, "up")]   \* deployments only reach nodes that are up
                  /\ UNCHANGED <<alive, watcher, pending, scanned>>
AgentReports(n) == /\ alive[n] /\ wls' = [wls EXCEPT ![n] = [i \in 1..Len(@) |-> "up"]] /\ UNCHANGED <<alive, watcher, pending, scanned>>
Start == /\ watcher = "off" /\ watcher' = "on" /\ scanned' = {} /\ UNCHANGED <<alive, wls, pending>>
Scan(n) == /\ watcher = "on" /\ n \notin scanned /\ scanned' = scanned \cup {n}
           /\ pending' = (IF alive[n] THEN pending ELSE pending \cup {n}) /\ UNCHANGED <<alive, wls, watcher>>
Handle(n) == /\ watcher = "on" /\ n \in pending /\ pending' = pending \ {n}
             /\ wls' = [wls EXCEPT ![n] = [i \in 1..Len(@) |-> "down"]] /\ UNCHANGED <<alive, watcher, scanned>>
Wait == UNCHANGED <<alive, wls, watcher, pending, scanned>>

Env == \/ \E n \in Nodes : \/ (Heartbeat(n) /\ hist' = Append(hist, O("hb", n)))
                           \/ (Lapse(n) /\ hist' = Append(hist, O("lapse", n)))
                           \/ (~Focus /\ Lapse(n) /\ hist' = Append(hist, O("expire", n)))
                           \/ (~Focus /\ NewWorkload(n) /\ hist' = Append(hist, O("addwl", n)))
                           \/ (AgentReports(n) /\ hist' = Append(hist, O("report", n)))
       \/ (~Focus /\ Start /\ hist' = Append(hist, O("start", "")))
       \/ (~Focus /\ Wait /\ hist # <<>> /\ hist[Len(hist)].op # "wait" /\ hist' = Append(hist, O("wait", "")))
Sys == \E n \in Nodes : (Scan(n) \/ Handle(n)) /\ UNCHANGED hist
Next == (Len(hist) < MaxOps /\ Env) \/ Sys
Spec == Init /\ [][Next]_vars /\ WF_vars(Sys)

\* once the environment is done: a node that is lapsed, with a watcher running, ends with all its workloads down
Settled == Len(hist) = MaxOps /\ ~ENABLED Sys
DownWhenSettled == (Settled /\ watcher = "on") => \A n \in Nodes : ~alive[n] => AllDown(n)
LapseLeadsToDown == \A n \in Nodes : ((~alive[n] /\ watcher = "on") ~> (AllDown(n) \/ alive[n]))
=============================================================================
