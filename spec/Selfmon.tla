------------------------------- MODULE Selfmon -------------------------------
(***************************************************************************)
(* C28: a failed node's workloads are reported down.                       *)
(*   alive[n]     the node's heartbeat status exists                       *)
(*   wls[n]       workloads recorded on n, each with the status the store  *)
(*                shows: "up" (running, healthy) or "down"                 *)
(*   watcher      "off" | "on"  (the active node-status watcher)           *)
(*   pending      nodes whose lapse the watcher still has to handle        *)
(*   scanned      nodes the watcher's initial scan has looked at           *)
(* Environment: Heartbeat, Lapse (status deleted or expired), NewWorkload, *)
(* AgentReports (the node's agent reports its workloads up again), Start.  *)
(* Watcher: Scan(n) (initial scan: a node without status counts as lapsed),*)
(* Handle(n) (SetNode with workloads-down: every workload recorded on n at *)
(* that moment is marked down).                                            *)
(* Property: Lapse(n) with the watcher on (or started later) leads to all  *)
(* workloads of n being down, unless the node comes back first.            *)
(***************************************************************************)
EXTENDS Integers, Sequences, FiniteSets, SequencesExt, TLC
\* Focus: "no" = everything; "on" = the watcher runs and each node has a workload from the start, only heartbeat / lapse /
\* agent report follow; "off" = the same with the watcher not yet started (start, start-then-lapse are steps as well)
CONSTANTS Nodes, MaxOps, Focus, ScanFirst
VARIABLES alive, wls, watcher, pending, scanned, hist
vars == <<alive, wls, watcher, pending, scanned, hist>>
O(op, n) == [op |-> op, n |-> n]

Init == IF Focus # "no"
        THEN /\ alive = [n \in Nodes |-> TRUE] /\ wls = [n \in Nodes |-> <<"up">>] /\ watcher = Focus /\ pending = {} /\ scanned = {}
             /\ hist = (IF Focus = "on" THEN <<O("start", "")>> ELSE <<>>) \o [i \in 1..Cardinality(Nodes) |-> O("addwl", SetToSeq(Nodes)[i])]
        ELSE /\ alive = [n \in Nodes |-> TRUE] /\ wls = [n \in Nodes |-> <<>>] /\ watcher = "off"
             /\ pending = {} /\ scanned = {} /\ hist = <<>>
AllDown(n) == \A i \in 1..Len(wls[n]) : wls[n][i] = "down"

Heartbeat(n) == /\ alive' = [alive EXCEPT ![n] = TRUE] /\ UNCHANGED <<wls, watcher, pending, scanned>>
Lapse(n) == /\ alive[n] /\ alive' = [alive EXCEPT ![n] = FALSE]
            /\ pending' = (IF watcher = "on" THEN pending \cup {n} ELSE pending)    \* a stream event only reaches a running watcher
            /\ UNCHANGED <<wls, watcher, scanned>>
NewWorkload(n) == /\ alive[n] /\ Len(wls[n]) < 2 /\ wls' = [wls EXCEPT ![n] = Append(@, "up")]   \* deployments only reach nodes that are up
                  /\ UNCHANGED <<alive, watcher, pending, scanned>>
AgentReports(n) == /\ alive[n] /\ wls' = [wls EXCEPT ![n] = [i \in 1..Len(@) |-> "up"]] /\ UNCHANGED <<alive, watcher, pending, scanned>>
Start == /\ watcher = "off" /\ watcher' = "on" /\ scanned' = {} /\ UNCHANGED <<alive, wls, pending>>
Scan(n) == /\ watcher = "on" /\ n \notin scanned /\ scanned' = scanned \cup {n}
           /\ pending' = (IF alive[n] THEN pending ELSE pending \cup {n}) /\ UNCHANGED <<alive, wls, watcher>>
Handle(n) == /\ watcher = "on" /\ n \in pending /\ pending' = pending \ {n}
             /\ wls' = [wls EXCEPT ![n] = [i \in 1..Len(@) |-> "down"]] /\ UNCHANGED <<alive, watcher, scanned>>
\* the watcher becomes active, its initial scan has looked at the first node (ScanFirst: nodes are listed in name order) and
\* then node n's status disappears, the rest of the scan still to come: Start . Scan(ScanFirst) . Lapse(n) as one step of
\* the environment (the driver parks the scan there).  The watch is open from Start on, so the event is not lost.
StartThenLapse(n) == /\ watcher = "off" /\ alive[n] /\ watcher' = "on" /\ scanned' = {ScanFirst}
                     /\ alive' = [alive EXCEPT ![n] = FALSE]
                     /\ pending' = pending \cup {n} \cup (IF alive[ScanFirst] THEN {} ELSE {ScanFirst})
                     /\ UNCHANGED wls
Wait == UNCHANGED <<alive, wls, watcher, pending, scanned>>

Env == \/ \E n \in Nodes : \/ (Heartbeat(n) /\ hist' = Append(hist, O("hb", n)))
                           \/ (Lapse(n) /\ hist' = Append(hist, O("lapse", n)))
                           \/ (Focus = "no" /\ Lapse(n) /\ hist' = Append(hist, O("expire", n)))
                           \/ (Focus = "no" /\ NewWorkload(n) /\ hist' = Append(hist, O("addwl", n)))
                           \/ (AgentReports(n) /\ hist' = Append(hist, O("report", n)))
       \/ (Focus # "on" /\ Start /\ hist' = Append(hist, O("start", "")))
       \/ \E n \in Nodes : (Focus # "on" /\ StartThenLapse(n) /\ hist' = Append(hist, O("startlapse", n)))
       \/ (Focus = "no" /\ Wait /\ hist # <<>> /\ hist[Len(hist)].op # "wait" /\ hist' = Append(hist, O("wait", "")))
Sys == \E n \in Nodes : (Scan(n) \/ Handle(n)) /\ UNCHANGED hist
Next == (Len(hist) < MaxOps /\ Env) \/ Sys
Spec == Init /\ [][Next]_vars /\ WF_vars(Sys)

\* once the environment is done: a node that is lapsed, with a watcher running, ends with all its workloads down
Settled == Len(hist) = MaxOps /\ ~ENABLED Sys
DownWhenSettled == (Settled /\ watcher = "on") => \A n \in Nodes : ~alive[n] => AllDown(n)
LapseLeadsToDown == \A n \in Nodes : ((~alive[n] /\ watcher = "on") ~> (AllDown(n) \/ alive[n]))
=============================================================================
