---------------------------- MODULE CpuMemProps ----------------------------
(***************************************************************************)
(* Declarative meaning of the cpumem resource plugin's properties          *)
(* (resource/plugins/cpumem): C04 no overcommit, C05 exact CPU amount,     *)
(* C06 termination, C07 capacity = what allocation accepts, and the        *)
(* bookkeeping vocabulary used by the history spec (C08, C15, C32, C33).   *)
(*                                                                         *)
(* A node is a record                                                      *)
(*   [B, ms, cap, used, numa, mem, memUsed, numaMem, numaMemUsed]          *)
(* cap/used/numa are sequences indexed by core (pieces; numa[c] = 0 means  *)
(* "no NUMA node", else an index into numaMem); B is the share base        *)
(* (pieces per full core), ms the max-share setting (-1 = unlimited).      *)
(* A plan / workload resource is [cpu (pieces per core), numa, mem, ...].  *)
(***************************************************************************)
EXTENDS Integers, Sequences, FiniteSets, TLC

INFCAP == -1                 \* JSON encoding of math.MaxInt capacity

RECURSIVE SumSeq(_, _)
SumSeq(f, n) == IF n = 0 THEN 0 ELSE f[n] + SumSeq(f, n - 1)
Sum(f) == SumSeq(f, Len(f))

Cores(n) == 1..Len(n.cap)
Numas(n) == 1..Len(n.numaMem)

\* the plugin's own Validate rule (types/node.go), transcribed
ValidNode(n) ==
    /\ Len(n.cap) >= 1 /\ Len(n.used) = Len(n.cap) /\ Len(n.numa) = Len(n.cap)
    /\ \A c \in Cores(n) : n.cap[c] >= 0 /\ n.used[c] <= n.cap[c]
    /\ (\E c \in Cores(n) : n.numa[c] > 0) =>
          /\ \A c \in Cores(n) : n.numa[c] \in Numas(n)
          /\ \A k \in Numas(n) : n.numaMem[k] >= 0 /\ n.numaMemUsed[k] >= 0
                                   /\ n.numaMemUsed[k] <= n.numaMem[k]
\* what Validate omits and C04 adds: memory is not oversubscribed
MemFits(n) == n.memUsed <= n.mem

\* pieces a request of `cpu` pieces should receive: the driver states requests as an
\* exact number of pieces (cpu/B cores), so "to the nearest piece" is cpu itself
PlansOn(plans, k) == {i \in 1..Len(plans) : plans[i].numa = k}
CoreLoad(plans, c) == Sum([i \in 1..Len(plans) |-> plans[i].cpu[c]])

(***************************************************************************)
(* C04 for one accepted allocation of Len(plans) instances.                *)
(***************************************************************************)
FitsCores(n, plans) ==
    \A c \in Cores(n) : n.used[c] + CoreLoad(plans, c) <= n.cap[c]
FitsNuma(n, plans, memReq) ==
    \A i \in 1..Len(plans) :
       /\ plans[i].numa >= 0
       /\ plans[i].numa > 0 =>
            /\ plans[i].numa \in Numas(n)
            /\ \A c \in Cores(n) : plans[i].cpu[c] > 0 => n.numa[c] = plans[i].numa
            /\ n.numaMemUsed[plans[i].numa] + Cardinality(PlansOn(plans, plans[i].numa)) * memReq
                  <= n.numaMem[plans[i].numa]
FitsMemory(n, plans, memReq) == n.memUsed + Len(plans) * memReq <= n.mem
WellFormed(n, plans) ==
    \A i \in 1..Len(plans) :
       /\ plans[i].extra = 0 /\ Len(plans[i].cpu) = Len(n.cap)
       /\ \A c \in Cores(n) : plans[i].cpu[c] >= 0

AllocFits(n, in, try) ==
    try.class = "ok" =>
       /\ Len(try.plans) = try.k /\ try.nEngine = try.k
       /\ WellFormed(n, try.plans)
       /\ FitsCores(n, try.plans)
       /\ FitsNuma(n, try.plans, in.memReq)
       /\ FitsMemory(n, try.plans, in.memReq)

\* committing: usage after = usage before + sum of the plans, and still valid
After(n, plans, memReq) ==
    [used |-> [c \in Cores(n) |-> n.used[c] + CoreLoad(plans, c)],
     memUsed |-> n.memUsed + Len(plans) * memReq,
     numaMemUsed |-> [k \in Numas(n) |-> n.numaMemUsed[k] + Cardinality(PlansOn(plans, k)) * memReq]]

CommitOK(n, in, plans, commit) ==
    commit.k > 0 =>
       /\ commit.class = "ok"
       /\ commit.after.extra = 0
       /\ commit.after.used = After(n, plans, in.memReq).used
       /\ commit.after.memUsed = After(n, plans, in.memReq).memUsed
       /\ commit.after.numaMemUsed = After(n, plans, in.memReq).numaMemUsed
       /\ ValidNode([n EXCEPT !.used = commit.after.used, !.memUsed = commit.after.memUsed,
                              !.numaMemUsed = commit.after.numaMemUsed])
       /\ commit.after.memUsed <= n.mem

(***************************************************************************)
(* C05: a bound instance gets exactly the requested pieces, as whole cores *)
(* plus at most one fractional core.                                       *)
(***************************************************************************)
ReqPieces(in) == in.cpu + (IF in.sub >= 5 THEN 1 ELSE 0)    \* nearest piece
\* recorded amount (in 1/1000 core) vs pieces given: equal to the nearest piece
Agrees(cpu1000, pieces, B) == (cpu1000 * B - pieces * 1000) \in (0 - 500 - B)..(500 + B)
ExactCPU(n, in, plan) ==
    LET tot == Sum(plan.cpu)
        frac == ReqPieces(in) % n.B
        partial == {c \in Cores(n) : plan.cpu[c] > 0 /\ plan.cpu[c] # n.B}
    IN /\ tot = ReqPieces(in)
       /\ Cardinality(partial) <= 1
       /\ \A c \in partial : plan.cpu[c] = frac
       /\ frac = 0 => partial = {}
       /\ Agrees(plan.cpu1000, tot, n.B)          \* recorded cpu_request agrees with the pieces
UnboundCPU(n, in, plan) ==
    /\ \A c \in Cores(n) : plan.cpu[c] = 0
    /\ plan.numa = 0
    /\ Agrees(plan.cpu1000, in.cpu, n.B)
C05ok(n, in, try) ==
    try.class = "ok" => \A i \in 1..Len(try.plans) :
        /\ IF in.bind THEN ExactCPU(n, in, try.plans[i]) ELSE UnboundCPU(n, in, try.plans[i])
        /\ try.plans[i].mem = in.memReq

(***************************************************************************)
(* C06: every call returned normally.                                      *)
(***************************************************************************)
Returned(class) == class \notin {"panic", "timeout", "died"}

(***************************************************************************)
(* C07: reported capacity is exactly the largest accepted instance count.  *)
(***************************************************************************)
CapOf(capRep) == IF capRep.offered THEN capRep.cap ELSE 0
Accepts(try) == try.class = "ok"
C07ok(in, capRep, tries, commit) ==
    LET cap == CapOf(capRep) IN
    /\ capRep.class = "ok"
    /\ capRep.offered <=> cap # 0
    /\ capRep.total = cap                               \* one node: total = its capacity
    /\ \A i \in 1..Len(tries) :
          /\ tries[i].class \in {"ok", "insufficient"}
          /\ Accepts(tries[i]) <=> (cap = INFCAP \/ tries[i].k <= cap)
    \* memory-only request: committing k lowers the reported capacity by exactly k
    /\ (~in.bind /\ commit.k > 0 /\ commit.class = "ok") =>
          commit.capAfter = (IF cap = INFCAP THEN INFCAP ELSE cap - commit.k)

SatAdd(a, b) == IF a = INFCAP \/ b = INFCAP THEN INFCAP ELSE a + b
RECURSIVE SatSumTo(_, _)
SatSumTo(f, n) == IF n = 0 THEN 0 ELSE SatAdd(f[n], SatSumTo(f, n - 1))
C07multi(e) ==
    /\ e.class = "ok"
    /\ e.caps = e.single                      \* same answer asked alone or together
    /\ e.extra = 0                            \* zero-capacity nodes are not offered
    /\ e.total = SatSumTo(e.caps, Len(e.caps))
=============================================================================
