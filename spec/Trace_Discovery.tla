--------------------------- MODULE Trace_Discovery ---------------------------
(* Judges the discovery driver's schedules (C27): at the end of a schedule    *)
(* (one push interval after the last change) every subscribed reader's last   *)
(* message is the registered set; every unsubscribe completed and its channel *)
(* was closed.  The presence of a stalled subscriber (the design deviation    *)
(* shown by MC_Discovery_stalled) is part of the failure signature.           *)
EXTENDS Integers, Sequences, FiniteSets, TLC, TraceBase
VARIABLES l
SetEq(seq, S) == Len(seq) = Cardinality(S) /\ \A i \in 1..Len(seq) : seq[i] \in S
Range(q) == {q[i] : i \in 1..Len(q)}
Stalled(e) == IF \E i \in 1..Len(e.ops) : e.ops[i].op = "sub" /\ e.ops[i].x = "s4" THEN "with-stalled-subscriber" ELSE "all-subscribers-reading"
TraceInit == l = 1
TraceNext ==
    /\ l <= Len(Trace)
    /\ LET e == Trace[l] IN
       IF e.envfail THEN TRUE      \* the store ended the service stream (etcd failure): outside the property
       ELSE
       /\ \A i \in 1..Len(e.subs) : LET s == e.subs[i] IN
             Report(s.kind = "stalled" \/ SetEq(s.last, Range(e.registered)), "C27", l, "subscriber-did-not-converge/" \o s.kind \o "/" \o Stalled(e))
       /\ \A i \in 1..Len(e.unsubs) : LET u == e.unsubs[i] IN
             /\ Report(u.completed, "C27", l, "unsubscribe-did-not-complete/" \o Stalled(e))
             /\ Report(~u.completed \/ u.closed, "C27", l, "channel-not-closed-after-unsubscribe/" \o Stalled(e))
    /\ l' = l + 1
TraceSpec == TraceInit /\ [][TraceNext]_l
TraceAccepted == IF TLCGet("stats").diameter - 1 = Len(Trace)
                 THEN PrintT(<<"ACCEPTED", Len(Trace)>>)
                 ELSE PrintT(<<"REJECTED", TLCGet("stats").diameter - 1, Len(Trace)>>)
=============================================================================
