SPECIFICATION TraceSpec
CONSTANTS
  Nodes = {"n1", "n2"}
  ScanFirst = "n1"
  Focus = "no"
  MaxOps = 0
POSTCONDITION TraceAccepted
CHECK_DEADLOCK FALSE
