SPECIFICATION TraceSpec
CONSTANTS
  Nodes = {"n1", "n2"}
  Focus = FALSE
  MaxOps = 0
POSTCONDITION TraceAccepted
CHECK_DEADLOCK FALSE
