SPECIFICATION Spec
CONSTANTS
  Users = {"x"}
  Passwords = {"pw"}
  MaxLives = 2
  MsgCounts = {0, 1, 2}
  Maxes = {0, 1}
  CancelAts <- CancelQuick
  Methods = {"wss", "watch", "list"}
  Mode = "retry"
CONSTRAINT Emit
CHECK_DEADLOCK FALSE
