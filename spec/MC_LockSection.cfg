SPECIFICATION Spec
CONSTANTS
  MaxLocks = 3
  K = 2
  Chained = TRUE
INVARIANTS SectionFollowsLocks SectionToldBounded
PROPERTY SectionIsTold
CONSTRAINT Emit
CHECK_DEADLOCK FALSE
