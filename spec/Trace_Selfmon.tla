---------------------------- MODULE Trace_Selfmon ----------------------------
(* Judges the selfmon driver's histories: the history's operations are replayed *)
(* with Selfmon's environment actions to know which nodes ended lapsed; with a  *)
(* watcher started, every workload of such a node must have been reported down. *)
EXTENDS Selfmon, TraceBase
VARIABLES l
RECURSIVE AliveAfter(_, _, _)
AliveAfter(ops, i, a) == IF i > Len(ops) THEN a
                         ELSE LET o == ops[i] IN
                              AliveAfter(ops, i + 1, IF o.op = "hb" THEN [a EXCEPT ![o.n] = TRUE]
                                                     ELSE IF o.op \in {"lapse", "expire", "startlapse"} THEN [a EXCEPT ![o.n] = FALSE] ELSE a)
Row(e, n) == e.final[CHOOSE i \in 1..Len(e.final) : e.final[i].node = n]
Down(r) == \A i \in 1..Len(r.wls) : ~r.wls[i].running /\ ~r.wls[i].healthy
LastLapse(e, n) == LET I == {i \in 1..Len(e.ops) : e.ops[i].n = n /\ e.ops[i].op \in {"lapse", "expire", "startlapse"}} IN
                   IF I = {} THEN "none" ELSE e.ops[CHOOSE i \in I : \A j \in I : j <= i].op
StartedBefore(e, n) == LET S == {i \in 1..Len(e.ops) : e.ops[i].op \in {"start", "startlapse"}}
                           L == {i \in 1..Len(e.ops) : e.ops[i].n = n /\ e.ops[i].op \in {"lapse", "expire", "startlapse"}} IN
                       IF S = {} \/ L = {} THEN "n/a"
                       ELSE IF (CHOOSE i \in S : TRUE) < (CHOOSE i \in L : \A j \in L : j <= i) THEN "watcher-started-before-lapse"
                       ELSE IF (CHOOSE i \in S : TRUE) = (CHOOSE i \in L : \A j \in L : j <= i) THEN "lapse-during-the-watcher's-initial-scan"
                       ELSE "watcher-started-after-lapse"
TraceInit == l = 1 /\ alive = [n \in Nodes |-> TRUE] /\ wls = [n \in Nodes |-> <<>>] /\ watcher = "off" /\ pending = {} /\ scanned = {} /\ hist = <<>>
TraceNext ==
    /\ l <= Len(Trace)
    /\ UNCHANGED <<alive, wls, watcher, pending, scanned, hist>>
    /\ LET e == Trace[l]
           a == AliveAfter(e.ops, 1, [n \in Nodes |-> TRUE]) IN
       IF e.starved THEN TRUE      \* the driver process was starved of CPU during this history: not judged
       ELSE
       /\ \A n \in Nodes : Report(Row(e, n).alive = a[n], "REF", l, "heartbeat-status-differs-from-model/" \o n)
       /\ \A n \in Nodes : Report((e.started /\ ~a[n]) => Down(Row(e, n)), "C28", l,
                                  "workloads-of-lapsed-node-still-up/" \o LastLapse(e, n) \o "/" \o StartedBefore(e, n))
    /\ l' = l + 1
TraceSpec == TraceInit /\ [][TraceNext]_<<l, vars>>
TraceAccepted == IF TLCGet("stats").diameter - 1 = Len(Trace)
                 THEN PrintT(<<"ACCEPTED", Len(Trace)>>)
                 ELSE PrintT(<<"REJECTED", TLCGet("stats").diameter - 1, Len(Trace)>>)
=============================================================================
