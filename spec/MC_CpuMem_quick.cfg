SPECIFICATION MCSpec
CONSTANTS
  B = 10
  MaxShares <- MS_quick
  NCores = {3}
  Kinds = {"free", "frag7", "frag2", "full", "big"}
  Layouts = {"none", "one"}
  MemUsedSet = {0, 2, 4}
  NumaUsedSet <- NU_quick
  CpuSet = {2, 5, 10, 12, 15, 20}
  MemReqs = {0, 1, 2}
  UnboundCpu = {0, 5, 50}
INVARIANT InputsValid
CONSTRAINT EmitInputs
CHECK_DEADLOCK FALSE
