-------------------------- MODULE Trace_Ephemeral --------------------------
(* Validates schedules of register / lapse / deregister recorded from real   *)
(* StartEphemeral registrations.  `owner` is rebuilt from the logged effects *)
(* (a successful registration owns the key until it lapses or deregisters).  *)
EXTENDS Integers, Sequences, FiniteSets, TLC, TraceBase
VARIABLES l, backend, owner, last, lapses
tvars == <<l, backend, owner, last, lapses>>
\* signature of a finding: backend + whether a lapse has happened earlier in the schedule
Ctx == backend \o (IF lapses > 0 THEN "/after-lapse" ELSE "/no-lapse")
NoOp == [op |-> "none", r |-> 0, ok |-> TRUE]
SetOf(s) == {s[i] : i \in 1..Len(s)}

TraceInit == l = 1 /\ backend = "" /\ owner = 0 /\ last = NoOp /\ lapses = 0
TraceNext ==
    /\ l <= Len(Trace)
    /\ LET e == Trace[l] IN
       CASE e.ev = "EphRun" -> backend' = e.backend /\ owner' = 0 /\ last' = NoOp /\ lapses' = 0
         [] e.ev = "EphOp" ->
              /\ owner' = CASE e.op = "reg" /\ e.ok -> e.r
                            [] e.op = "lapse" -> 0
                            [] e.op = "dereg" /\ owner = e.r -> 0
                            [] OTHER -> owner
              /\ last' = [op |-> e.op, r |-> e.r, ok |-> e.ok, prevOwner |-> owner]
              /\ lapses' = lapses + (IF e.op = "lapse" THEN 1 ELSE 0)
              /\ UNCHANGED backend
         [] e.ev = "EphObs" ->
              LET B == SetOf(e.believers) IN
              \* at most one registrant believes it holds the key
              /\ Report(Cardinality(B) <= 1, "C26", l, "two-believers/" \o Ctx)
              \* a registrant whose registration lapsed has been told (one heartbeat tick has passed)
              /\ Report(\A r \in B : e.present /\ (e.owner >= 0 => e.owner = r) /\ r = owner, "C26", l, "lapsed-registrant-not-notified/" \o Ctx)
              \* deregistering never removes a registration made by somebody else
              /\ Report((last.op = "dereg" /\ last.prevOwner # 0 /\ last.prevOwner # last.r) =>
                            (e.present /\ last.prevOwner \in B), "C26", l, "deregister-removed-foreign-registration/" \o Ctx)
              \* a successful registration is exclusive: nobody else still owns the key
              /\ Report((last.op = "reg" /\ last.ok) => last.prevOwner \in {0, last.r}, "C26", l, "registered-over-live-registration/" \o Ctx)
              /\ UNCHANGED <<backend, owner, last, lapses>>
    /\ l' = l + 1
TraceSpec == TraceInit /\ [][TraceNext]_tvars
TraceAccepted == IF TLCGet("stats").diameter - 1 = Len(Trace)
                 THEN PrintT(<<"ACCEPTED", Len(Trace)>>)
                 ELSE PrintT(<<"REJECTED", TLCGet("stats").diameter - 1, Len(Trace)>>)
=============================================================================
