SPECIFICATION Spec
INVARIANTS SafeReferential UsageExact
CONSTRAINT Emit
CHECK_DEADLOCK FALSE
