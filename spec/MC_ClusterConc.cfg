SPECIFICATION Spec
INVARIANT SafeReferential
CONSTRAINT Emit
CHECK_DEADLOCK FALSE
