---------------------------- MODULE ClusterScen ----------------------------
(***************************************************************************)
(* The scenario space of the cluster conformance runs: a pre-state (node   *)
(* layout + workloads already deployed) and ONE API operation.  TLC        *)
(* enumerates the space (every initial state is a scenario); the harness   *)
(* executes each scenario fault-free, then once per single-fault placement *)
(* (or crash placement, or placement of "the caller gives up": its context *)
(* is cancelled from that call on) among the external calls the operation  *)
(* makes.                                                                  *)
(***************************************************************************)
EXTENDS Integers, Sequences, FiniteSets, TLC
CONSTANTS Layouts, WlSets, Strategies, Counts, Reqs, Deltas, Modes, Includes
VARIABLES sc, q

N(name, pod, kind) == [name |-> name, pod |-> pod, kind |-> kind, down |-> FALSE]
W(node, req) == [node |-> node, req |-> req, app |-> "a"]
Layout(k) == CASE k = "two-plain" -> <<N("n1", "p1", "plain2"), N("n2", "p1", "plain2")>>
               [] k = "numa-plain" -> <<N("n1", "p1", "numa4"), N("n2", "p1", "plain2")>>
               [] k = "one-down" -> <<[N("n1", "p1", "plain2") EXCEPT !.down = TRUE], N("n2", "p2", "plain2")>>
               [] k = "two-pods" -> <<N("n1", "p1", "plain2"), N("n2", "p1", "plain4"), N("n3", "p2", "plain2")>>
WlSet(k) == CASE k = "none" -> <<>>
              [] k = "one-bound" -> <<W("n1", "b")>>
              [] k = "bound-unbound" -> <<W("n1", "b"), W("n2", "u")>>
              [] k = "half-and-unbound" -> <<W("n1", "h"), W("n1", "u")>>
Op(kind, strategy, count, nodes, pod, req, targets, force, delta) ==
    [kind |-> kind, strategy |-> strategy, count |-> count, limit |-> 0, nodes |-> nodes, pod |-> pod, req |-> req,
     targets |-> targets, force |-> force, delta |-> delta, app |-> "a", stdin |-> FALSE]
Ops(nw) ==
    {Op("create", s, c, inc, "p1", r, <<>>, FALSE, "") : s \in Strategies, c \in Counts, r \in Reqs, inc \in Includes}
    \cup (IF nw >= 1 THEN {Op("remove", "", 0, <<>>, "p1", "", <<0>>, f, "") : f \in BOOLEAN}
                          \cup {Op("dissociate", "", 0, <<>>, "p1", "", <<0>>, FALSE, "")}
                          \cup {Op("realloc", "", 0, <<>>, "p1", "", <<0>>, FALSE, d) : d \in Deltas}
                          \cup {Op("replace", "", 0, <<>>, "p1", "", <<0>>, FALSE, "")}
                          \cup {Op("control", "", 0, <<>>, "p1", "", <<0>>, f, d) : f \in BOOLEAN, d \in {"stop", "start", "restart"}}
                          \cup {Op("copy", "", 0, <<>>, "p1", "", <<0>>, FALSE, d) : d \in {"ok", "missingpath", "missingid"}}
                          \cup {Op("execute", "", 0, <<>>, "p1", "", <<0>>, FALSE, d) : d \in {"ok", "exit3", "execerr", "codeerr"}}
          ELSE {})
    \cup (IF nw >= 2 THEN {Op("remove", "", 0, <<>>, "p1", "", <<0, 1>>, TRUE, ""), Op("dissociate", "", 0, <<>>, "p1", "", <<1, 0>>, FALSE, ""),
                           Op("realloc", "", 0, <<>>, "p1", "", <<1>>, FALSE, "bind"), Op("replace", "", 0, <<>>, "p1", "", <<0, 1>>, FALSE, ""),
                           Op("copy", "", 0, <<>>, "p1", "", <<0, 1>>, FALSE, "ok")}
          ELSE {})
    \cup {[Op("lambda", "AUTO", c, <<>>, "p1", r, <<>>, FALSE, bh) EXCEPT !.stdin = si] :
              c \in {1, 2, 3, 4}, r \in {"u", "b"}, bh \in {"ok", "exit3", "logserr", "waiterr", "attacherr"}, si \in BOOLEAN}
    \cup {Op("setnode", "", 0, <<"n1">>, "p1", "", <<>>, FALSE, d) : d \in {"mem+", "cpu+", "mem-", "numa+"}}
    \cup {Op("addnode", "", 0, <<"n9">>, "p1", "", <<>>, FALSE, ""), Op("addnode", "", 0, <<"n1">>, "p1", "", <<>>, FALSE, "")}
    \cup {Op("removenode", "", 0, <<"n2">>, "p1", "", <<>>, FALSE, ""), Op("removepod", "", 0, <<>>, "p1", "", <<>>, FALSE, ""),
          Op("fix", "", 0, <<"n1">>, "p1", "", <<>>, FALSE, "")}
Scenarios == {[nodes |-> Layout(lay), wls |-> WlSet(ws), op |-> o, mode |-> m, every |-> 1] :
                 lay \in Layouts, ws \in WlSets, o \in UNION {Ops(Len(WlSet(w))) : w \in WlSets}, m \in Modes \cup {"once", "burst"}}
Valid(s) == /\ \A i \in 1..Len(s.op.targets) : s.op.targets[i] < Len(s.wls)
            /\ (s.op.kind \in {"remove", "dissociate", "realloc", "replace", "control", "copy", "execute"} => Len(s.wls) > 0)
            /\ (s.mode = "crash" => s.op.kind = "create")
            /\ (s.op.kind = "lambda" => s.mode \in {"once", "burst"}) /\ (s.mode = "once" => s.op.kind = "lambda")
            \* "burst": the instances of one run-and-wait request / deployment finish their creation at the same moment (several rounds)
            /\ (s.mode = "burst" => /\ s.op.kind \in {"lambda", "create"} /\ s.op.count >= 2
                                     /\ (s.op.kind = "lambda" => s.op.delta = "ok" /\ ~s.op.stdin /\ s.op.req = "u")
                                     /\ (s.op.kind = "create" => s.op.strategy = "AUTO" /\ s.op.nodes = <<>>))
            /\ (s.op.count = 4 => s.mode = "burst")
            /\ (s.op.delta = "numa+" => s.nodes = Layout("numa-plain"))     \* one more core with its NUMA placement: NUMA nodes only
            /\ (s.op.kind = "lambda" => (s.op.stdin => s.op.count = 1) /\ (s.op.delta = "attacherr" => s.op.stdin) /\ s.wls = <<>>)
            /\ (Len(s.op.targets) = 2 => Len(s.wls) >= 2)
            /\ (s.nodes = Layout("one-down") => (s.wls = <<>> /\ s.op.kind \in {"removepod", "removenode", "setnode", "addnode", "fix"} /\ s.mode = "fault"))
Init == sc \in {s \in Scenarios : Valid(s)} /\ q = 0
Next == q = 0 /\ q' = 1 /\ UNCHANGED sc
Spec == Init /\ [][Next]_<<sc, q>>
=============================================================================
