------------------------------ MODULE MC_Merge ------------------------------
EXTENDS Merge, Json, IOUtils
CONSTANTS NPlugins, NNodes, Caps, Weights, Us, Rs
CapsDef1 == {1, 2, INFCAP}
CapsDef2 == {1, INFCAP}
NodeAns == [off : {TRUE}, cap : Caps, u : Us, r : Rs] \cup {[off |-> FALSE, cap |-> 0, u |-> 0, r |-> 0]}
PluginAns == [w : Weights, nodes : [1..NNodes -> NodeAns]]
VARIABLE ans
Init == ans \in [1..NPlugins -> PluginAns]
Spec == Init /\ [][UNCHANGED ans]_ans
DesignC09 == FoldOrderFree(ans)
Emit == PrintT(<<"INPUT", ToJson(ans)>>)
=============================================================================
