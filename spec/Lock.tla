-------------------------------- MODULE Lock --------------------------------
(***************************************************************************)
(* The distributed lock as the cluster uses it (lock/etcdlock, lock/redis, *)
(* store.CreateLock, cluster/calcium/lock.go): C18 mutual exclusion,       *)
(* try-lock, waiters; C19 a holder learns that it lost the lock.           *)
(*                                                                         *)
(* Each contender owns its lock object.  key is the lock's record in the   *)
(* backend: None or the client whose lease / TTL backs it.  A client's     *)
(* view: st[c] in {idle, waiting, holding}; ctxLive[c] is the context the  *)
(* lock returned.  Expire(c) is the backend dropping c's record (lease     *)
(* revoked / TTL elapsed); Notice(c) is c's lock context being cancelled;  *)
(* `since[c]` counts ticks between the two (bounded by K = one keepalive   *)
(* interval in the property).                                              *)
(***************************************************************************)
EXTENDS Integers, FiniteSets, TLC
CONSTANTS Clients, None, K

VARIABLES key, st, ctxLive, lost, since
vars == <<key, st, ctxLive, lost, since>>

Init == /\ key = None /\ st = [c \in Clients |-> "idle"] /\ ctxLive = [c \in Clients |-> FALSE]
        /\ lost = [c \in Clients |-> FALSE] /\ since = [c \in Clients |-> 0]

Call(c) == /\ st[c] = "idle" /\ st' = [st EXCEPT ![c] = "waiting"] /\ UNCHANGED <<key, ctxLive, lost, since>>
Acquire(c) == /\ st[c] \in {"idle", "waiting"} /\ key = None
              /\ key' = c /\ st' = [st EXCEPT ![c] = "holding"] /\ ctxLive' = [ctxLive EXCEPT ![c] = TRUE]
              /\ lost' = [lost EXCEPT ![c] = FALSE] /\ since' = [since EXCEPT ![c] = 0]
\* try-lock on a held lock fails at once: it never passes through "waiting"
TryFail(c) == /\ st[c] = "idle" /\ key # None /\ UNCHANGED vars
WaitTimeout(c) == /\ st[c] = "waiting" /\ key # None /\ st' = [st EXCEPT ![c] = "idle"] /\ UNCHANGED <<key, ctxLive, lost, since>>
Release(c) == /\ st[c] = "holding"
              /\ key' = IF key = c THEN None ELSE key          \* owner-checked delete
              /\ st' = [st EXCEPT ![c] = "idle"] /\ ctxLive' = [ctxLive EXCEPT ![c] = FALSE]
              /\ lost' = [lost EXCEPT ![c] = FALSE] /\ UNCHANGED since
Expire(c) == /\ key = c /\ st[c] = "holding" /\ key' = None /\ lost' = [lost EXCEPT ![c] = TRUE]
             /\ since' = [since EXCEPT ![c] = 0] /\ UNCHANGED <<st, ctxLive>>
Notice(c) == /\ lost[c] /\ ctxLive[c] /\ ctxLive' = [ctxLive EXCEPT ![c] = FALSE] /\ UNCHANGED <<key, st, lost, since>>
\* time passes; a lost holder must have been told before K ticks have gone by
Tick == /\ \A c \in Clients : (lost[c] /\ ctxLive[c]) => since[c] < K
        /\ since' = [c \in Clients |-> IF lost[c] /\ ctxLive[c] THEN since[c] + 1 ELSE since[c]]
        /\ UNCHANGED <<key, st, ctxLive, lost>>

Next == Tick \/ \E c \in Clients : Call(c) \/ Acquire(c) \/ TryFail(c) \/ WaitTimeout(c) \/ Release(c) \/ Expire(c) \/ Notice(c)
Spec == Init /\ [][Next]_vars /\ \A c \in Clients : WF_vars(Notice(c)) /\ WF_vars(Release(c))

\* C18: among holders that still believe in their lock (context live, lease not lost) at most one
Believers == {c \in Clients : st[c] = "holding" /\ ~lost[c]}
Mutex == Cardinality(Believers) <= 1
OwnerIsHolder == key # None => st[key] = "holding"
\* C19: a holder with a live context coexists with a new owner for at most K ticks
CoexistBounded == \A c \in Clients : (st[c] = "holding" /\ ctxLive[c] /\ lost[c]) => since[c] <= K
LostIsTold == \A c \in Clients : lost[c] ~> ~ctxLive[c]
=============================================================================
