------------------------------ MODULE StoreConc ------------------------------
(***************************************************************************)
(* C13's counting rule under concurrency (store level): while instances of *)
(* a deployment are being recorded (AddWorkload with the processing marker, *)
(* i.e. "add the workload and decrement the marker atomically") the count   *)
(* deployed + in-progress of the node                                      *)
(*     never falls below the workloads recorded, never exceeds prior +      *)
(*     planned,                                                            *)
(* and two concurrent store calls leave the state that one of their two    *)
(* sequential orders leaves (Store!Apply is the sequential reference).     *)
(* A scenario: pre-state (pod, node n1, marker of 2 planned instances,     *)
(* possibly w1 recorded) and an ordered pair of calls (A parked before     *)
(* each of its etcd requests in turn, B executed inside that window).      *)
(***************************************************************************)
EXTENDS Store
VARIABLES pairv, q
O5(op, a, b, c, n) == [op |-> op, a |-> a, b |-> b, c |-> c, n |-> n]
Calls == {O5("AddWorkload", "w1", "n1", "i1", 0), O5("AddWorkload", "w2", "n1", "i1", 0), O5("AddWorkload", "w2", "n1", "", 0),
          O5("RemoveWorkload", "w1", "n1", "", 0), O5("UpdateWorkload", "w1", "n1", "", 0),
          O5("DeleteProc", "a/x", "n1", "i1", 0), O5("CreateProc", "a/x", "n1", "i1", 2)}
Pres == {"marker", "marker+w1"}
CInit == pairv \in {[pre |-> p, a |-> x, b |-> y] : p \in Pres, x \in Calls, y \in Calls} /\ q = 0
CNext == q = 0 /\ q' = 1 /\ UNCHANGED pairv
=============================================================================
