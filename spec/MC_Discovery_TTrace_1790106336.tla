---- MODULE MC_Discovery_TTrace_1790106336 ----
EXTENDS Sequences, TLCExt, MC_Discovery, Toolbox, Naturals, TLC

_expression ==
    LET MC_Discovery_TEExpression == INSTANCE MC_Discovery_TEExpression
    IN MC_Discovery_TEExpression!expression
----

_trace ==
    LET MC_Discovery_TETrace == INSTANCE MC_Discovery_TETrace
    IN MC_Discovery_TETrace!trace
----

_prop ==
    ~<>[](
        todo = ({"s2"})
        /\
        unsubq = ({})
        /\
        closedCh = ({})
        /\
        hist = (<<[op |-> "sub", x |-> "s1"], [op |-> "sub", x |-> "s2"], [op |-> "reg", x |-> "a1"]>>)
        /\
        streamq = (<<{"a1"}>>)
        /\
        subs = ([s1 |-> [kind |-> "reader", last |-> {}], s2 |-> [kind |-> "stalled", last |-> {"?"}]])
        /\
        loop = ("dispatch")
        /\
        registered = ({"a1"})
        /\
        latest = ({})
    )
----

_init ==
    /\ closedCh = _TETrace[1].closedCh
    /\ loop = _TETrace[1].loop
    /\ latest = _TETrace[1].latest
    /\ streamq = _TETrace[1].streamq
    /\ hist = _TETrace[1].hist
    /\ unsubq = _TETrace[1].unsubq
    /\ todo = _TETrace[1].todo
    /\ registered = _TETrace[1].registered
    /\ subs = _TETrace[1].subs
----

_next ==
    /\ \E i,j \in DOMAIN _TETrace:
        /\ \/ /\ j = i + 1
              /\ i = TLCGet("level")
        /\ closedCh  = _TETrace[i].closedCh
        /\ closedCh' = _TETrace[j].closedCh
        /\ loop  = _TETrace[i].loop
        /\ loop' = _TETrace[j].loop
        /\ latest  = _TETrace[i].latest
        /\ latest' = _TETrace[j].latest
        /\ streamq  = _TETrace[i].streamq
        /\ streamq' = _TETrace[j].streamq
        /\ hist  = _TETrace[i].hist
        /\ hist' = _TETrace[j].hist
        /\ unsubq  = _TETrace[i].unsubq
        /\ unsubq' = _TETrace[j].unsubq
        /\ todo  = _TETrace[i].todo
        /\ todo' = _TETrace[j].todo
        /\ registered  = _TETrace[i].registered
        /\ registered' = _TETrace[j].registered
        /\ subs  = _TETrace[i].subs
        /\ subs' = _TETrace[j].subs

\* Uncomment the ASSUME below to write the states of the error trace
\* to the given file in Json format. Note that you can pass any tuple
\* to `JsonSerialize`. For example, a sub-sequence of _TETrace.
    \* ASSUME
    \*     LET J == INSTANCE Json
    \*         IN J!JsonSerialize("MC_Discovery_TTrace_1790106336.json", _TETrace)

=============================================================================

 Note that you can extract this module `MC_Discovery_TEExpression`
  to a dedicated file to reuse `expression` (the module in the 
  dedicated `MC_Discovery_TEExpression.tla` file takes precedence 
  over the module `MC_Discovery_TEExpression` below).

---- MODULE MC_Discovery_TEExpression ----
EXTENDS Sequences, TLCExt, MC_Discovery, Toolbox, Naturals, TLC

expression == 
    [
        \* To hide variables of the `MC_Discovery` spec from the error trace,
        \* remove the variables below.  The trace will be written in the order
        \* of the fields of this record.
        closedCh |-> closedCh
        ,loop |-> loop
        ,latest |-> latest
        ,streamq |-> streamq
        ,hist |-> hist
        ,unsubq |-> unsubq
        ,todo |-> todo
        ,registered |-> registered
        ,subs |-> subs
        
        \* Put additional constant-, state-, and action-level expressions here:
        \* ,_stateNumber |-> _TEPosition
        \* ,_closedChUnchanged |-> closedCh = closedCh'
        
        \* Format the `closedCh` variable as Json value.
        \* ,_closedChJson |->
        \*     LET J == INSTANCE Json
        \*     IN J!ToJson(closedCh)
        
        \* Lastly, you may build expressions over arbitrary sets of states by
        \* leveraging the _TETrace operator.  For example, this is how to
        \* count the number of times a spec variable changed up to the current
        \* state in the trace.
        \* ,_closedChModCount |->
        \*     LET F[s \in DOMAIN _TETrace] ==
        \*         IF s = 1 THEN 0
        \*         ELSE IF _TETrace[s].closedCh # _TETrace[s-1].closedCh
        \*             THEN 1 + F[s-1] ELSE F[s-1]
        \*     IN F[_TEPosition - 1]
    ]

=============================================================================



Parsing and semantic processing can take forever if the trace below is long.
 In this case, it is advised to uncomment the module below to deserialize the
 trace from a generated binary file.

\*
\*---- MODULE MC_Discovery_TETrace ----
\*EXTENDS IOUtils, MC_Discovery, TLC
\*
\*trace == IODeserialize("MC_Discovery_TTrace_1790106336.bin", TRUE)
\*
\*=============================================================================
\*

---- MODULE MC_Discovery_TETrace ----
EXTENDS MC_Discovery, TLC

trace == 
    <<
    ([todo |-> {},unsubq |-> {},closedCh |-> {},hist |-> <<>>,streamq |-> <<>>,subs |-> <<>>,loop |-> "idle",registered |-> {},latest |-> {}]),
    ([todo |-> {},unsubq |-> {},closedCh |-> {},hist |-> <<[op |-> "sub", x |-> "s1"]>>,streamq |-> <<>>,subs |-> [s1 |-> [kind |-> "reader", last |-> {"?"}]],loop |-> "idle",registered |-> {},latest |-> {}]),
    ([todo |-> {},unsubq |-> {},closedCh |-> {},hist |-> <<[op |-> "sub", x |-> "s1"], [op |-> "sub", x |-> "s2"]>>,streamq |-> <<>>,subs |-> [s1 |-> [kind |-> "reader", last |-> {"?"}], s2 |-> [kind |-> "stalled", last |-> {"?"}]],loop |-> "idle",registered |-> {},latest |-> {}]),
    ([todo |-> {"s1", "s2"},unsubq |-> {},closedCh |-> {},hist |-> <<[op |-> "sub", x |-> "s1"], [op |-> "sub", x |-> "s2"]>>,streamq |-> <<>>,subs |-> [s1 |-> [kind |-> "reader", last |-> {"?"}], s2 |-> [kind |-> "stalled", last |-> {"?"}]],loop |-> "dispatch",registered |-> {},latest |-> {}]),
    ([todo |-> {"s1", "s2"},unsubq |-> {},closedCh |-> {},hist |-> <<[op |-> "sub", x |-> "s1"], [op |-> "sub", x |-> "s2"], [op |-> "reg", x |-> "a1"]>>,streamq |-> <<{"a1"}>>,subs |-> [s1 |-> [kind |-> "reader", last |-> {"?"}], s2 |-> [kind |-> "stalled", last |-> {"?"}]],loop |-> "dispatch",registered |-> {"a1"},latest |-> {}]),
    ([todo |-> {"s2"},unsubq |-> {},closedCh |-> {},hist |-> <<[op |-> "sub", x |-> "s1"], [op |-> "sub", x |-> "s2"], [op |-> "reg", x |-> "a1"]>>,streamq |-> <<{"a1"}>>,subs |-> [s1 |-> [kind |-> "reader", last |-> {}], s2 |-> [kind |-> "stalled", last |-> {"?"}]],loop |-> "dispatch",registered |-> {"a1"},latest |-> {}])
    >>
----


=============================================================================

---- CONFIG MC_Discovery_TTrace_1790106336 ----
CONSTANTS
    Addrs = { "a1" }
    Subs = { "s1" , "s2" }
    Kind <- KindStalled
    MaxOps = 3

PROPERTY
    _prop

CHECK_DEADLOCK
    \* CHECK_DEADLOCK off because of PROPERTY or INVARIANT above.
    FALSE

INIT
    _init

NEXT
    _next

CONSTANT
    _TETrace <- _trace

ALIAS
    _expression
=============================================================================
\* Generated on Tue Sep 22 19:45:39 UTC 2026