----------------------------- MODULE Ephemeral -----------------------------
(***************************************************************************)
(* Ephemeral registrations (store/etcdv3/meta/ephemeral.go,                *)
(* store/redis/ephemeral.go; used by service registration and by the       *)
(* active node-status watcher), property C26.                              *)
(*                                                                         *)
(*   key        - None or the registrant whose lease/TTL backs the key     *)
(*   believes[r]- r registered and has not been told otherwise             *)
(*   lapsed[r]  - r's registration was dropped by the backend and r has    *)
(*                not yet noticed                                          *)
(* Register is exclusive; Heartbeat/Deregister must leave a key owned by   *)
(* somebody else untouched; a lapse is eventually noticed.                 *)
(***************************************************************************)
EXTENDS Integers, FiniteSets, Sequences, TLC
CONSTANTS Registrants, None, MaxOps

VARIABLES key, believes, lapsed, hist
vars == <<key, believes, lapsed, hist>>
Log(op, r) == hist' = Append(hist, [op |-> op, r |-> r])

Init == key = None /\ believes = [r \in Registrants |-> FALSE] /\ lapsed = [r \in Registrants |-> FALSE] /\ hist = <<>>

Register(r) == /\ ~believes[r] /\ key = None
               /\ key' = r /\ believes' = [believes EXCEPT ![r] = TRUE] /\ lapsed' = [lapsed EXCEPT ![r] = FALSE] /\ Log("reg", r)
RegisterRefused(r) == /\ ~believes[r] /\ key # None /\ UNCHANGED <<key, believes, lapsed>> /\ Log("reg", r)
\* the backend drops the current registration (lease revoked / TTL elapsed during a pause)
Lapse == /\ key # None /\ lapsed' = [lapsed EXCEPT ![key] = TRUE] /\ key' = None /\ UNCHANGED believes /\ Log("lapse", 0)
\* the registrant's next heartbeat finds its registration gone: it is told (expiry channel closes)
Notice(r) == /\ believes[r] /\ lapsed[r]
             /\ believes' = [believes EXCEPT ![r] = FALSE] /\ lapsed' = [lapsed EXCEPT ![r] = FALSE]
             /\ UNCHANGED <<key, hist>>
\* a heartbeat of the owner refreshes; of anybody else changes nothing
Heartbeat(r) == believes[r] /\ ~lapsed[r] /\ UNCHANGED vars
Deregister(r) == /\ believes[r]
                 /\ key' = IF key = r THEN None ELSE key         \* never deletes somebody else's key
                 /\ believes' = [believes EXCEPT ![r] = FALSE] /\ lapsed' = [lapsed EXCEPT ![r] = FALSE] /\ Log("dereg", r)

Next == /\ Len(hist) < MaxOps
        /\ \/ Lapse \/ \E r \in Registrants : Register(r) \/ RegisterRefused(r) \/ Notice(r) \/ Deregister(r)
Spec == Init /\ [][Next]_vars /\ \A r \in Registrants : WF_vars(Notice(r))

\* at most one registrant believes it holds the key, not counting those awaiting their notice
Exclusive == Cardinality({r \in Registrants : believes[r] /\ ~lapsed[r]}) <= 1
OwnerBelieves == key # None => (believes[key] /\ ~lapsed[key])
OwnerSafe == [][\A r \in Registrants : (key # None /\ key # r /\ key' # key) => ~(believes[r] /\ ~believes'[r])]_vars
LapseNoticed == \A r \in Registrants : lapsed[r] ~> ~believes[r]
=============================================================================
