------------------------------ MODULE StrategyProps ------------------------------
(***************************************************************************)
(* Deploy strategies of Eru core (strategy/*.go): AUTO (CommunismPlan),    *)
(* GLOBAL, DRAINED, EACH (AveragePlan), FILL.                              *)
(*                                                                         *)
(* Two things live here:                                                   *)
(*  1. the declarative meaning of properties C01, C02, C03 as predicates   *)
(*     over an input and the observed outcome (used by Trace_Strategy on   *)
(*     events recorded from the real strategy.Deploy), and                 *)
(*  2. a step-machine transcription of the algorithms (one heap pop /      *)
(*     one sorted-slice visit per step, ties left nondeterministic) that   *)
(*     TLC explores exhaustively for every enumerated input; its final     *)
(*     states must satisfy the same predicates (design-level check).       *)
(*                                                                         *)
(* Numbers: usage and rate are dyadic rationals stored x4 as integers      *)
(* (exact in float64).  INF stands for math.MaxInt capacity.               *)
(***************************************************************************)
EXTENDS Integers, Sequences, FiniteSets, TLC

CONSTANT INF          \* "unlimited" capacity (math.MaxInt in the code, -1 in JSON)

Strategies == {"AUTO", "GLOBAL", "DRAINED", "EACH", "FILL"}

Min2(a, b) == IF a < b THEN a ELSE b
Max2(a, b) == IF a > b THEN a ELSE b
Sat(x)     == IF x >= INF THEN INF ELSE x

RECURSIVE SumTo(_, _)
SumTo(f, n) == IF n = 0 THEN 0 ELSE f[n] + SumTo(f, n - 1)
SumF(f)     == SumTo(f, Len(f))

Idx(infos)  == 1..Len(infos)

\* what the caller (calcium) passes as `total`: the saturating sum of capacities
TotalOf(infos) == Sat(SumF([i \in Idx(infos) |-> infos[i].cap]))

LimitN(infos, limit) == IF limit = 0 THEN Len(infos) ELSE limit

\* room left on a node for AUTO under the per-node limit
Room(info, limit) ==
    IF limit > 0 THEN Min2(info.cap, Max2(limit - info.count, 0)) ELSE info.cap

Given(plan, i) == IF plan[i] < 0 THEN 0 ELSE plan[i]     \* -1 = node not in plan
PlanSum(plan)  == SumF([i \in DOMAIN plan |-> Given(plan, i)])

(***************************************************************************)
(* C02: does a plan under the strategy's rule exist?                       *)
(***************************************************************************)
Feasible(s, infos, need, limit) ==
    LET L == LimitN(infos, limit) IN
    CASE s = "AUTO" ->
           Sat(SumF([i \in Idx(infos) |-> Room(infos[i], limit)])) >= need
      [] s \in {"GLOBAL", "DRAINED"} -> TotalOf(infos) >= need
      [] s = "EACH" ->
           /\ Len(infos) >= L
           /\ Cardinality({i \in Idx(infos) : infos[i].cap >= need}) >= L
      [] s = "FILL" ->
           /\ Len(infos) >= L
           /\ Cardinality({i \in Idx(infos) : infos[i].count + infos[i].cap >= need}) >= L

Planned(class) == class \in {"plan", "filled"}

C02ok(s, infos, need, limit, class, plan) ==
    /\ class \in {"plan", "filled", "insufficient"}
    /\ (class = "insufficient") <=> ~Feasible(s, infos, need, limit)
    /\ class = "insufficient" => \A i \in DOMAIN plan : plan[i] = -1
    /\ class = "filled" => s = "FILL"

(***************************************************************************)
(* C01: a produced plan respects count and capacity.                       *)
(***************************************************************************)
C01ok(s, infos, need, limit, class, plan, extra) ==
    Planned(class) =>
    LET L == LimitN(infos, limit) IN
    /\ extra = 0                                   \* only candidate names
    /\ Len(plan) = Len(infos)
    /\ \A i \in Idx(infos) : plan[i] >= -1 /\ Given(plan, i) <= infos[i].cap
    /\ s \in {"AUTO", "GLOBAL", "DRAINED"} => PlanSum(plan) = need
    /\ (s = "AUTO" /\ limit > 0) =>
           \A i \in Idx(infos) : plan[i] > 0 => infos[i].count + plan[i] <= limit
    /\ s = "EACH" =>
           /\ \A i \in Idx(infos) : plan[i] \in {-1, need}
           /\ Cardinality({i \in Idx(infos) : plan[i] = need}) = L
    /\ s = "FILL" =>
           /\ Cardinality({i \in Idx(infos) : plan[i] >= 0}) = L
           /\ \A i \in Idx(infos) : plan[i] >= 0 =>
                  /\ infos[i].count + infos[i].cap >= need
                  /\ plan[i] = Max2(need - infos[i].count, 0)
           /\ (class = "filled") <=> (PlanSum(plan) = 0)

(***************************************************************************)
(* C03: the documented balancing rule of each strategy.                    *)
(***************************************************************************)
CanTake(infos, limit, plan, j) ==
    /\ Given(plan, j) < infos[j].cap
    /\ limit > 0 => infos[j].count + Given(plan, j) < limit

C03ok(s, infos, need, limit, class, plan) ==
    Planned(class) =>
    /\ s = "AUTO" =>
         \A i, j \in Idx(infos) :
            (plan[i] > 0 /\ CanTake(infos, limit, plan, j)) =>
               infos[i].count + plan[i] <= infos[j].count + Given(plan, j) + 1
    /\ s = "GLOBAL" =>
         \A i, j \in Idx(infos) :
            (plan[i] > 0 /\ Given(plan, j) < infos[j].cap) =>
               infos[i].u + plan[i] * infos[i].r
                 <= infos[j].u + Given(plan, j) * infos[j].r + infos[j].r
    /\ s = "DRAINED" =>
         \A i, j \in Idx(infos) :
            (plan[j] > 0 /\ infos[i].cap < infos[j].cap) => Given(plan, i) = infos[i].cap
    /\ s = "EACH" =>
         \A i, j \in Idx(infos) :
            (plan[i] >= 0 /\ plan[j] < 0) => infos[i].cap >= infos[j].cap
    /\ s = "FILL" =>
         \A i, j \in Idx(infos) :
            (/\ plan[i] >= 0 /\ plan[j] < 0
             /\ infos[j].count + infos[j].cap >= need) => infos[i].count >= infos[j].count
=============================================================================
