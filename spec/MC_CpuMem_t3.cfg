SPECIFICATION MCSpec
CONSTANTS
  B = 10
  MaxShares <- MS_all
  NCores = {2, 3}
  Kinds = {"free", "frag7", "frag2", "full", "big", "bigfrag"}
  Layouts = {"none", "one"}
  MemUsedSet = {0, 2, 4}
  NumaUsedSet <- NU_all
  CpuSet = {2, 5, 7, 10, 12, 15, 20, 27}
  MemReqs = {0, 1, 2}
  UnboundCpu = {0, 5, 50}
INVARIANT InputsValid
CONSTRAINT EmitInputs
CHECK_DEADLOCK FALSE
