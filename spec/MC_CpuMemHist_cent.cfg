SPECIFICATION Spec
CONSTANTS
  NodeKinds = {"cent4"}
  AllocKinds = {"b115", "b057", "b229"}
  ReallocKinds = {"cpu+", "mem+", "mem-", "keep"}
  Slots = {1, 2}
  Depth = 2
CONSTRAINT EmitHist
CHECK_DEADLOCK FALSE
