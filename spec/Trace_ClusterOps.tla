-------------------------- MODULE Trace_ClusterOps --------------------------
(* Second pass over the cluster drivers' traces: binds ClusterOps to the code. *)
(* For every run of remove / dissociate / realloc on ONE workload (fault-free  *)
(* or with one failure) the external calls the real operation made, in order   *)
(* and with their outcomes, must be a behaviour of the ClusterOps step machine  *)
(* of that operation, and the machine's final state (usage applied, record,    *)
(* container, reported outcome) must be what was read back afterwards.          *)
(* Deviations are diagnostics (REF): the listed properties are judged by        *)
(* Trace_Cluster on the state alone; this pass says whether the model of HOW    *)
(* the code gets there is still the code's.                                     *)
EXTENDS ClusterState, ClusterOps, TraceBase
VARIABLES l, hdr, pre, st, msgs, retv
tvars == <<l, hdr, pre, st, msgs, retv, m, hist>>

RECURSIVE SkipReports(_)
SkipReports(s) == IF AtReport(s) THEN SkipReports(DoReport(s)) ELSE s
KindOf(h) == LET o == h.scenario.op IN IF o.kind = "remove" THEN (IF o.force THEN "removeforce" ELSE "remove") ELSE o.kind
Applicable(h) == /\ h.scenario.op.kind \in {"remove", "dissociate", "realloc"} /\ Len(h.scenario.op.targets) = 1
                 /\ h.mode \in {"fault", "history"} /\ Len(h.ids) > h.scenario.op.targets[1]
Target == hdr.ids[hdr.scenario.op.targets[1] + 1]
Tag == hdr.scenario.op.kind \o (IF hdr.scenario.op.kind = "realloc" THEN "/" \o hdr.scenario.op.delta ELSE "")
NodeOfTarget == FindWl(pre, Target).node
NodeRec(s, n) == s.nodes[CHOOSE i \in 1..Len(s.nodes) : s.nodes[i].name = n]
OkMsgsT == {i \in 1..Len(msgs) : msgs[i].class = "ok"}
ErrMsgsT == {i \in 1..Len(msgs) : msgs[i].class # "ok"}
ReportedOk == retv # <<>> /\ retv.class = "ok" /\ ErrMsgsT = {} /\ (hdr.scenario.op.kind = "realloc" \/ OkMsgsT # {})
\* the usage of the workload's node moved by exactly what the machine says is applied
UsageAsApplied(s, mm) ==
    LET n == NodeOfTarget  a == NodeRec(pre, n).use  b == NodeRec(s, n).use  w == FindWl(pre, Target).w IN
    CASE mm.applied = 1 -> a = b
      [] mm.applied = 0 -> b.cpu = a.cpu - w.cpu /\ b.mem = a.mem - w.mem /\ \A c \in 1..Len(a.cores) : b.cores[c] = a.cores[c] - At(w.cores, c)
      [] mm.applied = 2 -> Target \in WlIds(s) /\ LET v == FindWl(s, Target).w IN
                             b.cpu - a.cpu = v.cpu - w.cpu /\ b.mem - a.mem = v.mem - w.mem
                             /\ \A c \in 1..Len(a.cores) : b.cores[c] - a.cores[c] = At(v.cores, c) - At(w.cores, c)
WhatDiffers(s, mm) ==
    IF (mm.record = "none") # (Target \notin WlIds(s)) THEN "record"
    ELSE IF (mm.cont = "none") # (Target \notin ContainerIds(s)) THEN "container"
    ELSE IF ~UsageAsApplied(s, mm) THEN "usage"
    ELSE IF (mm.out = "ok") # ReportedOk THEN "reported-outcome"
    ELSE "none"

TraceInit == l = 1 /\ hdr = <<>> /\ pre = <<>> /\ st = "off" /\ msgs = <<>> /\ retv = <<>> /\ m = Start("remove") /\ hist = <<>>
TraceNext ==
    /\ l <= Len(Trace)
    /\ LET e == Trace[l] IN
       CASE e.ev = "Run" ->
              /\ hdr' = e /\ pre' = <<>> /\ msgs' = <<>> /\ retv' = <<>> /\ hist' = <<>>
              /\ IF Applicable(e) THEN st' = "on" /\ m' = Start(KindOf(e)) ELSE st' = "off" /\ UNCHANGED m
         [] e.ev = "Snap" /\ e.when = "pre" -> pre' = e /\ UNCHANGED <<hdr, st, msgs, retv, m, hist>>
         [] e.ev = "Ext" /\ st = "on" /\ e.target \in {"store", "plugin", "engine", "lock"} ->
              LET name == e.target \o "." \o e.method  mm == SkipReports(m) IN
              /\ hist' = Append(hist, [c |-> name, ok |-> e.class = "ok"])
              /\ IF e.class = "envfail" THEN st' = "skip" /\ UNCHANGED m
                 ELSE IF mm.todo = <<>>
                 THEN \* the program is over: only the remap applying new shared cores to the neighbours may follow
                      /\ UNCHANGED m
                      /\ (IF name = "engine.UpdateResource" THEN st' = st
                          ELSE st' = "drift" /\ Report(FALSE, "REF", l, "call-after-the-step-machine-finished/" \o Tag \o "/" \o name))
                 ELSE IF Head(mm.todo).c # name
                 THEN /\ UNCHANGED m /\ st' = "drift"
                      /\ Report(FALSE, "REF", l, "call-sequence-differs-from-step-machine/" \o Tag \o "/expected-" \o Head(mm.todo).c \o "/got-" \o name)
                 ELSE IF e.class = "ok" THEN m' = DoCallOk(mm) /\ st' = st
                 ELSE IF mm.faults = 0 THEN m' = DoCallFail(mm) /\ st' = st
                 ELSE st' = "skip" /\ UNCHANGED m          \* a second failure: outside the single-failure model
              /\ UNCHANGED <<hdr, pre, msgs, retv>>
         [] e.ev = "Msg" -> msgs' = Append(msgs, e) /\ UNCHANGED <<hdr, pre, st, retv, m, hist>>
         [] e.ev = "Return" -> retv' = e /\ UNCHANGED <<hdr, pre, st, msgs, m, hist>>
         [] e.ev = "Snap" /\ e.when = "post" /\ st = "on" ->
              LET mm == SkipReports(m) IN
              /\ (IF retv # <<>> /\ retv.class = "hang" THEN TRUE
                  ELSE /\ Report(mm.todo = <<>>, "REF", l, "fewer-calls-than-the-step-machine/" \o Tag \o "/next-" \o (IF mm.todo = <<>> THEN "" ELSE Head(mm.todo).c))
                       /\ (IF mm.todo = <<>> THEN Report(WhatDiffers(e, mm) = "none", "REF", l, "final-state-differs-from-step-machine/" \o Tag \o "/" \o WhatDiffers(e, mm)) ELSE TRUE))
              /\ st' = "off" /\ UNCHANGED <<hdr, pre, msgs, retv, m, hist>>
         [] OTHER -> UNCHANGED <<hdr, pre, st, msgs, retv, m, hist>>
    /\ l' = l + 1
TraceSpec == TraceInit /\ [][TraceNext]_tvars
TraceAccepted == IF TLCGet("stats").diameter - 1 = Len(Trace)
                 THEN PrintT(<<"ACCEPTED", Len(Trace)>>)
                 ELSE PrintT(<<"REJECTED", TLCGet("stats").diameter - 1, Len(Trace)>>)
=============================================================================
