SPECIFICATION Spec
CONSTANTS
  Order <- One
  MarkersFirst = TRUE
INVARIANTS CountInBounds ClosedClean RecoveredClean
PROPERTY Closes
CHECK_DEADLOCK FALSE
