SPECIFICATION Spec
CONSTANTS
  StepRecovery = FALSE
  FixAfterRemove = FALSE
  RCrashes = 0
  Order <- One
  MarkersFirst = TRUE
INVARIANTS CountInBounds ClosedClean RecoveredClean
PROPERTY Closes
CHECK_DEADLOCK FALSE
