----------------------------- MODULE ClusterHist -----------------------------
(***************************************************************************)
(* Histories of cluster API calls (C10's quantifier): sequences of create, *)
(* remove, dissociate, realloc, replace and set-node calls over two nodes, *)
(* each call optionally hit by one injected failure at its f-th external   *)
(* call.  The model keeps only what is needed to generate meaningful       *)
(* histories: how many workloads exist (targets are positions in the list  *)
(* of workloads created so far that are still believed to exist).  What    *)
(* each call must leave behind is judged on the real state by              *)
(* ClusterState's predicates after every call (Trace_Cluster).             *)
(***************************************************************************)
EXTENDS Integers, Sequences, FiniteSets, TLC
CONSTANTS MaxOps, MaxWl, FaultAt, FaultKinds      \* FaultKinds: "fail" (call f returns an error) / "cancel" (the caller gives up before call f)
VARIABLES live, hist
vars == <<live, hist>>
Op(kind, strategy, count, req, target, force, delta, f) ==
    [kind |-> kind, strategy |-> strategy, count |-> count, limit |-> 0, nodes |-> <<>>, pod |-> "p1", req |-> req,
     targets |-> IF target < 0 THEN <<>> ELSE <<target>>, force |-> force, delta |-> delta, app |-> "a", stdin |-> FALSE, fault |-> f, cancel |-> FALSE]
Init == live = 0 /\ hist = <<>>
\* a failing create may still create some instances: the driver re-reads the live list; the model only bounds it
Create == \E s \in {"AUTO", "FILL", "EACH"}, c \in {1, 2}, r \in {"u", "b", "h"}, f \in FaultAt :
             /\ live + c <= MaxWl /\ live' = live + (IF f = 0 THEN c ELSE 0) /\ hist' = Append(hist, Op("create", s, c, r, -1, FALSE, "", f))
Remove == \E i \in 0..(live - 1), fo \in BOOLEAN, f \in FaultAt :
             /\ live' = (IF f = 0 /\ fo THEN live - 1 ELSE live) /\ hist' = Append(hist, Op("remove", "", 0, "", i, fo, "", f))
Dissociate == \E i \in 0..(live - 1), f \in FaultAt :
             /\ live' = (IF f = 0 THEN live - 1 ELSE live) /\ hist' = Append(hist, Op("dissociate", "", 0, "", i, FALSE, "", f))
Realloc == \E i \in 0..(live - 1), d \in {"cpu+", "cpu-", "mem+", "mem++", "mem-", "keep", "unbind", "bind"}, f \in FaultAt :
             /\ UNCHANGED live /\ hist' = Append(hist, Op("realloc", "", 0, "", i, FALSE, d, f))
Replace == \E i \in 0..(live - 1), f \in FaultAt :
             /\ UNCHANGED live /\ hist' = Append(hist, Op("replace", "", 0, "", i, FALSE, "", f))
SetNode == \E d \in {"mem+", "cpu+"}, f \in FaultAt :
             /\ UNCHANGED live /\ hist' = Append(hist, [Op("setnode", "", 0, "", -1, FALSE, d, f) EXCEPT !.nodes = <<"n1">>])
\* the capacity query (read-only), alone with or without an injected failure, or followed by the very deployment it was
\* asked about: what it reported must be what the deployment then does (Trace_Cluster)
Capacity == \E s \in {"DUMMY", "AUTO", "FILL", "EACH"}, c \in {1, 2, 3}, r \in {"u", "b", "h", "m"}, f \in FaultAt :
             /\ UNCHANGED live /\ hist' = Append(hist, Op("capacity", s, c, r, -1, FALSE, "", f))
CapacityThenCreate == \E s \in {"AUTO", "FILL", "EACH"}, c \in {1, 2, 3}, r \in {"u", "b", "h", "m"} :
             /\ Len(hist) + 2 <= MaxOps /\ live + c <= MaxWl /\ live' = live + c
             /\ hist' = hist \o <<Op("capacity", s, c, r, -1, FALSE, "", 0), Op("create", s, c, r, -1, FALSE, "", 0)>>
\* the failure of the step just appended is the caller giving up instead of an error return
AsCancel == /\ hist # <<>> /\ "cancel" \in FaultKinds /\ hist[Len(hist)].fault # 0 /\ ~hist[Len(hist)].cancel
            /\ hist' = [hist EXCEPT ![Len(hist)].cancel = TRUE] /\ UNCHANGED live
Next == AsCancel \/ (Len(hist) < MaxOps /\ (Create \/ Remove \/ Dissociate \/ Realloc \/ Replace \/ SetNode \/ Capacity \/ CapacityThenCreate))
Spec == Init /\ [][Next]_vars
=============================================================================
