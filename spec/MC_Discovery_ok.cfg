SPECIFICATION Spec
CONSTANTS
  Addrs = {"a1", "a2"}
  Subs = {"s1", "s2"}
  Kind <- KindOK
  MaxOps = 4
PROPERTIES Converges UnsubscribeCompletes
CHECK_DEADLOCK FALSE
