SPECIFICATION Spec
INVARIANTS ThenIffCondOk RollbackIffFailed RollbackOnce RollbackToldWhy ReturnsFirstFailure RollbackUninterruptible PcrRollsBackOnlyCommit
PROPERTY Finishes
CHECK_DEADLOCK FALSE
