----------------------------- MODULE Trace_Txn -----------------------------
(* Validates call logs of the real utils.Txn / utils.PCR (scripted steps)   *)
(* against C17.  Events: Case{form,cond,then,rb,cancelAt} starts a run,     *)
(* Begin/End{which,sees[,byCond]} bracket a step (sees = its ctx.Err()#nil),*)
(* Cancel{} is the caller's cancel(), Return{err} ends the run.             *)
EXTENDS Integers, Sequences, TLC, TraceBase
VARIABLES l, in, cancelled, condEnded, ranThen, rbCount
tvars == <<l, in, cancelled, condEnded, ranThen, rbCount>>

Failed == in.cond = "fail" \/ (ranThen /\ in.then = "fail")
RbWanted == Failed /\ in.rb # "absent" /\ (in.form = "pcr" => in.cond = "ok")
FirstFailure == IF in.cond = "fail" THEN "cond" ELSE IF ranThen /\ in.then = "fail" THEN "then" ELSE "none"
Sig(s) == in.form \o "/" \o s

TraceInit == l = 1 /\ in = [form |-> "none"] /\ cancelled = FALSE /\ condEnded = FALSE /\ ranThen = FALSE /\ rbCount = 0
TraceNext ==
    /\ l <= Len(Trace)
    /\ LET e == Trace[l] IN
       CASE e.ev = "Case" ->
              /\ in' = e /\ cancelled' = FALSE /\ condEnded' = FALSE /\ ranThen' = FALSE /\ rbCount' = 0
         [] e.ev = "Cancel" -> cancelled' = TRUE /\ UNCHANGED <<in, condEnded, ranThen, rbCount>>
         [] e.ev = "Begin" /\ e.which = "cond" -> UNCHANGED <<in, cancelled, condEnded, ranThen, rbCount>>
         [] e.ev = "End" /\ e.which = "cond" -> condEnded' = TRUE /\ UNCHANGED <<in, cancelled, ranThen, rbCount>>
         [] e.ev = "Begin" /\ e.which = "then" ->
              /\ Report(condEnded /\ in.cond = "ok", "C17", l, Sig("then-without-successful-cond"))
              /\ ranThen' = TRUE /\ UNCHANGED <<in, cancelled, condEnded, rbCount>>
         [] e.ev = "End" /\ e.which = "then" -> UNCHANGED <<in, cancelled, condEnded, ranThen, rbCount>>
         [] e.ev = "Begin" /\ e.which = "rollback" ->
              /\ Report(rbCount = 0, "C17", l, Sig("rollback-twice"))
              /\ Report(Failed, "C17", l, Sig("rollback-without-failure"))
              /\ Report(in.form = "txn" => (e.byCond <=> in.cond = "fail"), "C17", l, Sig("rollback-told-wrong-step"))
              /\ Report(in.form = "pcr" => in.cond = "ok", "C17", l, Sig("pcr-rollback-on-prepare-failure"))
              /\ Report(~e.sees, "C17", l, Sig("rollback-interruptible"))
              /\ rbCount' = rbCount + 1 /\ UNCHANGED <<in, cancelled, condEnded, ranThen>>
         [] e.ev = "End" /\ e.which = "rollback" ->
              /\ Report(~e.sees, "C17", l, Sig("rollback-interruptible"))
              /\ UNCHANGED <<in, cancelled, condEnded, ranThen, rbCount>>
         [] e.ev = "Return" ->
              /\ Report(e.err = FirstFailure, "C17", l, Sig("returns-wrong-failure"))
              /\ Report(ranThen <=> (in.cond = "ok" /\ in.then # "absent"), "C17", l, Sig("then-iff-cond-ok"))
              /\ Report(rbCount = (IF RbWanted THEN 1 ELSE 0), "C17", l, Sig("rollback-iff-failed"))
              /\ UNCHANGED <<in, cancelled, condEnded, ranThen, rbCount>>
    /\ l' = l + 1
TraceSpec == TraceInit /\ [][TraceNext]_tvars
TraceAccepted == IF TLCGet("stats").diameter - 1 = Len(Trace)
                 THEN PrintT(<<"ACCEPTED", Len(Trace)>>)
                 ELSE PrintT(<<"REJECTED", TLCGet("stats").diameter - 1, Len(Trace)>>)
=============================================================================
