---------------------------- MODULE Trace_Engine ----------------------------
EXTENDS Engine, TraceBase
VARIABLE l
TraceInit == l = 1
Kind(p) == IF Bound(p) THEN "bound" ELSE IF p.remap THEN "remapped" ELSE "unbound"
TraceNext ==
    /\ l <= Len(Trace)
    /\ LET e == Trace[l] IN
       /\ e.ev = "Engine"
       /\ Report(C31ok(e.p, e.op, e.class, e.res), "C31", l, e.op \o "/" \o Kind(e.p))
    /\ l' = l + 1
TraceSpec == TraceInit /\ [][TraceNext]_l
TraceAccepted == IF TLCGet("stats").diameter - 1 = Len(Trace)
                 THEN PrintT(<<"ACCEPTED", Len(Trace)>>)
                 ELSE PrintT(<<"REJECTED", TLCGet("stats").diameter - 1, Len(Trace)>>)
=============================================================================
