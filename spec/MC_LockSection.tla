--------------------------- MODULE MC_LockSection ---------------------------
EXTENDS LockSection, Json, IOUtils
Ops == {"capacity", "create"}
Emit == (scen # <<>>) => \A o \in Ops : PrintT(<<"INPUT", ToJson([op |-> o, nlocks |-> scen[1], lose |-> scen[2]])>>)
=============================================================================
