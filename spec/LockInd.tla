------------------------------- MODULE LockInd -------------------------------
(* Typed copy of Lock.tla's state machine for Apalache: Mutex (C18) and the   *)
(* bounded-notice invariant (C19) are consequences of an INDUCTIVE invariant, *)
(* i.e. they hold after any number of steps, not only within TLC's bound.     *)
(* Checked with: apalache-mc check --init=Init --inv=IndInv --length=0  and   *)
(*               apalache-mc check --init=IndInit --inv=IndInv --length=1     *)
EXTENDS Integers, FiniteSets
CONSTANTS
  \* @type: Set(Str);
  Clients,
  \* @type: Int;
  K
None == "none"
CInit == Clients = {"c1", "c2", "c3", "c4"} /\ K = 2
VARIABLES
  \* @type: Str;
  key,
  \* @type: Str -> Str;
  st,
  \* @type: Str -> Bool;
  ctxLive,
  \* @type: Str -> Bool;
  lost,
  \* @type: Str -> Int;
  since
vars == <<key, st, ctxLive, lost, since>>

Init == /\ key = None /\ st = [c \in Clients |-> "idle"] /\ ctxLive = [c \in Clients |-> FALSE]
        /\ lost = [c \in Clients |-> FALSE] /\ since = [c \in Clients |-> 0]
Call(c) == /\ st[c] = "idle" /\ st' = [st EXCEPT ![c] = "waiting"] /\ UNCHANGED <<key, ctxLive, lost, since>>
Acquire(c) == /\ st[c] \in {"idle", "waiting"} /\ key = None
              /\ key' = c /\ st' = [st EXCEPT ![c] = "holding"] /\ ctxLive' = [ctxLive EXCEPT ![c] = TRUE]
              /\ lost' = [lost EXCEPT ![c] = FALSE] /\ since' = [since EXCEPT ![c] = 0]
TryFail(c) == /\ st[c] = "idle" /\ key # None /\ UNCHANGED vars
WaitTimeout(c) == /\ st[c] = "waiting" /\ key # None /\ st' = [st EXCEPT ![c] = "idle"] /\ UNCHANGED <<key, ctxLive, lost, since>>
Release(c) == /\ st[c] = "holding"
              /\ key' = IF key = c THEN None ELSE key
              /\ st' = [st EXCEPT ![c] = "idle"] /\ ctxLive' = [ctxLive EXCEPT ![c] = FALSE]
              /\ lost' = [lost EXCEPT ![c] = FALSE] /\ UNCHANGED since
Expire(c) == /\ key = c /\ st[c] = "holding" /\ key' = None /\ lost' = [lost EXCEPT ![c] = TRUE]
             /\ since' = [since EXCEPT ![c] = 0] /\ UNCHANGED <<st, ctxLive>>
Notice(c) == /\ lost[c] /\ ctxLive[c] /\ ctxLive' = [ctxLive EXCEPT ![c] = FALSE] /\ UNCHANGED <<key, st, lost, since>>
Tick == /\ \A c \in Clients : (lost[c] /\ ctxLive[c]) => since[c] < K
        /\ since' = [c \in Clients |-> IF lost[c] /\ ctxLive[c] THEN since[c] + 1 ELSE since[c]]
        /\ UNCHANGED <<key, st, ctxLive, lost>>
Next == Tick \/ \E c \in Clients : Call(c) \/ Acquire(c) \/ TryFail(c) \/ WaitTimeout(c) \/ Release(c) \/ Expire(c) \/ Notice(c)

TypeOK == /\ key \in Clients \cup {None}
          /\ st \in [Clients -> {"idle", "waiting", "holding"}]
          /\ ctxLive \in [Clients -> BOOLEAN] /\ lost \in [Clients -> BOOLEAN] /\ since \in [Clients -> 0..K]
Believers == {c \in Clients : st[c] = "holding" /\ ~lost[c]}
Mutex == Cardinality(Believers) <= 1
CoexistBounded == \A c \in Clients : (st[c] = "holding" /\ ctxLive[c] /\ lost[c]) => since[c] <= K
IndInv == /\ TypeOK
          /\ (key # None => (st[key] = "holding" /\ ~lost[key]))
          /\ \A c \in Clients : (st[c] = "holding" /\ ~lost[c]) => key = c
          /\ \A c \in Clients : lost[c] => st[c] = "holding"
          /\ Mutex /\ CoexistBounded
IndInit == IndInv
==============================================================================
