----------------------------- MODULE StoreStatus -----------------------------
(***************************************************************************)
(* C25: status reports are bound to live entities and expire.              *)
(* One node and one workload, each with an optional status:                *)
(*   present[x]  the entity is recorded                                    *)
(*   exp[x]      "none" (no status), "never" (TTL 0), or the time at which *)
(*               the status lapses = time of the latest accepted report +  *)
(*               its TTL (a repeated report, same value or not, extends it)*)
(*   val[x]      value of the latest accepted report                       *)
(*   now         clock (seconds)                                           *)
(* Report(x, v, ttl): ttl > 0 is accepted only if the entity is recorded;  *)
(* ttl = 0: node -> refused, workload -> accepted without binding (the     *)
(* agent may report before core recorded the workload); ttl < 0 (node):    *)
(* the status is deleted.  Removing an entity leaves the status's fate     *)
(* open ("open": either visible or not until the next report).             *)
(* Visibility rule for a read at time t (SLo/SHi: observation slack):      *)
(*   must see      if exp = never, or t < exp - SLo                        *)
(*   must not see  if exp = none,  or t > exp + SHi                        *)
(***************************************************************************)
EXTENDS Integers, Sequences, FiniteSets, TLC
CONSTANTS TTLs, Ticks, MaxOps, MaxTime, StatusOnly    \* StatusOnly: both entities recorded from the start, only reports and ticks follow
Ents == {"node", "wl"}
NONE == -1  NEVER == -2  OPEN == -3     \* exp values that are not times (TLC compares integers only with integers)
VARIABLES present, exp, val, now, hist
vars == <<present, exp, val, now, hist>>
O(op, x, v, ttl) == [op |-> op, x |-> x, v |-> v, ttl |-> ttl]

SInit == present = [x \in Ents |-> FALSE] /\ exp = [x \in Ents |-> NONE] /\ val = [x \in Ents |-> ""] /\ now = 0
Init == IF StatusOnly
        THEN /\ present = [x \in Ents |-> TRUE] /\ exp = [x \in Ents |-> NONE] /\ val = [x \in Ents |-> ""] /\ now = 0
             /\ hist = <<O("add", "node", "", 0), O("add", "wl", "", 0)>>
        ELSE SInit /\ hist = <<>>

Accepts(x, ttl) == IF ttl > 0 THEN present[x] ELSE IF ttl = 0 THEN x = "wl" ELSE x = "node"
Add(x) == present' = [present EXCEPT ![x] = TRUE] /\ UNCHANGED <<exp, val, now>>
\* removal of a workload also deletes its status key; a node's status key is left to lapse
Remove(x) == /\ present' = [present EXCEPT ![x] = FALSE]
             /\ exp' = [exp EXCEPT ![x] = IF @ = NONE THEN NONE ELSE OPEN]
             /\ UNCHANGED <<val, now>>
Report(x, v, ttl) ==
    IF Accepts(x, ttl)
    THEN /\ exp' = [exp EXCEPT ![x] = IF ttl > 0 THEN now + ttl ELSE IF ttl = 0 THEN NEVER ELSE NONE]
         /\ val' = [val EXCEPT ![x] = IF ttl >= 0 THEN v ELSE ""]
         /\ UNCHANGED <<present, now>>
    ELSE UNCHANGED <<present, exp, val, now>>
Tick(d) == now' = now + d /\ UNCHANGED <<present, exp, val>>

Apply(o) == CASE o.op = "add" -> Add(o.x) [] o.op = "remove" -> Remove(o.x)
              [] o.op = "report" -> Report(o.x, o.v, o.ttl) [] o.op = "tick" -> Tick(o.ttl)
OpSpace == (IF StatusOnly THEN {} ELSE {O("add", x, "", 0) : x \in {y \in Ents : ~present[y]}} \cup {O("remove", x, "", 0) : x \in {y \in Ents : present[y]}})
           \cup {O("report", "node", "alive", t) : t \in TTLs \cup {-1}} \cup {O("report", "node", "alive", 0) : t \in {z \in {0} : Len(hist) > MaxOps - 3}}
           \cup {O("report", "wl", v, t) : v \in {"A", "B"}, t \in TTLs \cup {0}}
           \cup {O("tick", "", "", d) : d \in {z \in Ticks : now + z <= MaxTime}}
Next == Len(hist) < MaxOps /\ \E o \in OpSpace : Apply(o) /\ hist' = Append(hist, o)
Spec == Init /\ [][Next]_vars

(* design-level sanity of the reference *)
TypeOK == \A x \in Ents : exp[x] \in {NONE, NEVER, OPEN} \cup 0..(MaxTime + 100)
\* a status that can still be seen for certain belongs to a recorded entity, except a TTL-0 workload status
BoundToEntity == \A x \in Ents : exp[x] > now => present[x]
=============================================================================
