SPECIFICATION Spec
CONSTANTS
  StepRecovery = TRUE
  FixAfterRemove = FALSE
  RCrashes = 0
  Order <- Two
  MarkersFirst = TRUE
INVARIANTS CountInBounds ClosedClean RecoveredClean
PROPERTY Closes RecoveryEnds
CHECK_DEADLOCK FALSE
