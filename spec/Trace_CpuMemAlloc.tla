------------------------- MODULE Trace_CpuMemAlloc -------------------------
(* Judges AllocCase / CapMulti / Crash events recorded from the real cpumem *)
(* plugin (GetNodesDeployCapacity, CalculateDeploy, SetNodeResourceUsage).  *)
EXTENDS CpuMemProps, TraceBase

VARIABLE l

NodeOf(in) == in        \* the input record carries the node fields directly

LastOK(tries) == LET S == {i \in 1..Len(tries) : tries[i].class = "ok"} IN
                 IF S = {} THEN 0 ELSE CHOOSE i \in S : \A j \in S : j <= i

SigOf(in) == IF in.bind THEN (IF \E c \in 1..Len(in.numa) : in.numa[c] > 0 THEN "bind-numa" ELSE "bind") ELSE "unbound"

JudgeAlloc(e, n) ==
    LET in == e.in  nd == NodeOf(e.in)  lk == LastOK(e.tries) IN
    /\ Report(\A i \in 1..Len(e.tries) : AllocFits(nd, in, e.tries[i]), "C04", n, SigOf(in))
    /\ Report(lk > 0 => CommitOK(nd, in, e.tries[lk].plans, e.commit), "C04", n, SigOf(in) \o "/commit")
    /\ Report(\A i \in 1..Len(e.tries) : C05ok(nd, in, e.tries[i]), "C05", n, SigOf(in))
    /\ Report(/\ Returned(e.capRep.class) /\ Returned(e.commit.class)
              /\ \A i \in 1..Len(e.tries) : Returned(e.tries[i].class), "C06", n, "class")
    /\ Report(C07ok(in, e.capRep, e.tries, e.commit), "C07", n, SigOf(in))

TraceInit == l = 1
TraceNext ==
    /\ l <= Len(Trace)
    /\ LET e == Trace[l] IN
       CASE e.ev = "AllocCase" -> JudgeAlloc(e, l)
         [] e.ev = "CapMulti"  -> Report(C07multi(e), "C07", l, "multi")
         [] e.ev = "Crash"     -> Report(FALSE, "C06", l, e.kind)
         [] e.ev = "BadInput"  -> TRUE
    /\ l' = l + 1
TraceSpec == TraceInit /\ [][TraceNext]_l
TraceAccepted == IF TLCGet("stats").diameter - 1 = Len(Trace)
                 THEN PrintT(<<"ACCEPTED", Len(Trace)>>)
                 ELSE PrintT(<<"REJECTED", TLCGet("stats").diameter - 1, Len(Trace)>>)
=============================================================================
