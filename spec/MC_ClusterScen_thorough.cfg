SPECIFICATION Spec
CONSTANTS
  Layouts = {"two-plain", "numa-plain", "two-pods", "one-down"}
  WlSets = {"none", "one-bound", "bound-unbound", "half-and-unbound"}
  Strategies = {"AUTO", "FILL", "EACH", "GLOBAL"}
  Counts = {1, 2, 3}
  Reqs = {"b", "u", "h", "big"}
  Deltas = {"cpu+", "cpu-", "mem+", "mem-", "keep", "unbind", "bind", "huge"}
  Includes <- IncludesThorough
  Modes = {"fault", "crash", "cancel"}
CONSTRAINT Emit
CHECK_DEADLOCK FALSE
