-------------------------- MODULE Trace_StoreStatus --------------------------
(* Judges the C25 driver's traces with the StoreStatus reference: acceptance  *)
(* by StoreStatus!Accepts, lifetime = latest accepted report + TTL.  Times    *)
(* are logged in ms (etcd: one monotonic clock, each call with start and end; *)
(* redis: miniredis virtual time); a report made during [t0,t1] lapses        *)
(* between t0+ttl and t1+ttl.                                                 *)
EXTENDS Integers, Sequences, FiniteSets, TLC, TraceBase
VARIABLES present, lo, hi, val, l
NONE == -1  NEVER == -2  OPEN == -3
Ents == {"node", "wl"}
SLo(b) == IF b = "etcd" THEN 1000 ELSE 0      \* must still be visible this long before the lapse
SHi(b) == IF b = "etcd" THEN 2500 ELSE 0      \* must be gone this long after it (etcd revokes leases lazily)
Accepts(x, ttl) == IF ttl > 0 THEN present[x] ELSE IF ttl = 0 THEN x = "wl" ELSE x = "node"
TtlTag(t) == IF t > 0 THEN "ttl+" ELSE IF t = 0 THEN "ttl0" ELSE "ttl-"

GetsOK(e) == \A x \in Ents :
    LET g == e.gets[x]
        mustSee == lo'[x] = NEVER \/ (lo'[x] >= 0 /\ g.t1 < lo'[x] - SLo(e.b))
        mustNot == lo'[x] = NONE \/ (hi'[x] >= 0 /\ g.t0 > hi'[x] + SHi(e.b))
    IN IF g.vis = "na" THEN TRUE
       ELSE /\ Report(g.vis # "err", "C25", l, "status-read-failed/" \o e.b \o "/" \o x)
            /\ Report(mustSee => g.vis # "no", "C25", l, "status-lapsed-before-ttl/" \o e.b \o "/" \o x)
            /\ Report(mustNot => g.vis # "yes", "C25", l, "status-visible-after-ttl/" \o e.b \o "/" \o x)
            /\ Report((g.vis = "yes" /\ x = "wl" /\ lo'[x] # OPEN) => g.val = val'[x], "C25", l, "status-value-stale/" \o e.b \o "/" \o x)

TraceInit == l = 1 /\ present = [x \in Ents |-> FALSE] /\ lo = [x \in Ents |-> NONE] /\ hi = [x \in Ents |-> NONE] /\ val = [x \in Ents |-> ""]
TraceNext ==
    /\ l <= Len(Trace)
    /\ LET e == Trace[l] IN
       /\ CASE e.ev = "StRun" ->
                 present' = [x \in Ents |-> FALSE] /\ lo' = [x \in Ents |-> NONE] /\ hi' = [x \in Ents |-> NONE] /\ val' = [x \in Ents |-> ""]
            [] e.ev = "StOp" /\ e.op.op = "add" ->
                 present' = [present EXCEPT ![e.op.x] = (@ \/ e.class = "ok")] /\ UNCHANGED <<lo, hi, val>>
            [] e.ev = "StOp" /\ e.op.op = "remove" ->
                 /\ present' = [present EXCEPT ![e.op.x] = (@ /\ e.class # "ok")]
                 /\ lo' = [lo EXCEPT ![e.op.x] = IF @ = NONE THEN NONE ELSE OPEN]
                 /\ hi' = [hi EXCEPT ![e.op.x] = IF @ = NONE THEN NONE ELSE OPEN]
                 /\ UNCHANGED val
            [] e.ev = "StOp" /\ e.op.op = "report" ->
                 LET x == e.op.x  ttl == e.op.ttl IN
                 /\ Report((e.class = "ok") = Accepts(x, ttl), "C25", l,
                           (IF e.class = "ok" THEN "report-accepted-for-unrecorded-entity/" ELSE "report-refused/") \o e.b \o "/" \o x \o "/" \o TtlTag(ttl))
                 /\ IF e.class = "ok"
                    THEN /\ lo' = [lo EXCEPT ![x] = IF ttl > 0 THEN e.t0 + ttl * 1000 ELSE IF ttl = 0 THEN NEVER ELSE NONE]
                         /\ hi' = [hi EXCEPT ![x] = IF ttl > 0 THEN e.t1 + ttl * 1000 ELSE IF ttl = 0 THEN NEVER ELSE NONE]
                         /\ val' = [val EXCEPT ![x] = e.op.v]
                    ELSE UNCHANGED <<lo, hi, val>>
                 /\ UNCHANGED present
            [] OTHER -> UNCHANGED <<present, lo, hi, val>>
       /\ GetsOK(e)
    /\ l' = l + 1
TraceSpec == TraceInit /\ [][TraceNext]_<<present, lo, hi, val, l>>
TraceAccepted == IF TLCGet("stats").diameter - 1 = Len(Trace)
                 THEN PrintT(<<"ACCEPTED", Len(Trace)>>)
                 ELSE PrintT(<<"REJECTED", TLCGet("stats").diameter - 1, Len(Trace)>>)
=============================================================================
