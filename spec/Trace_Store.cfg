SPECIFICATION TraceSpec
CONSTANTS
  Pods = {"p1", "p2"}
  Nodes = {"n1", "n2", "n3"}
  Wls = {"w1", "w2", "w3", "w4"}
  Idents = {"i1"}
  MaxOps = 0
POSTCONDITION TraceAccepted
CHECK_DEADLOCK FALSE
