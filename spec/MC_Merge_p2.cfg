SPECIFICATION Spec
CONSTANTS
  NPlugins = 2
  NNodes = 2
  Caps <- CapsDef1
  Weights = {1, 2, 100}
  Us = {0, 2}
  Rs = {1}
INVARIANT DesignC09
CONSTRAINT Emit
CHECK_DEADLOCK FALSE
