---------------------------- MODULE MC_SendCases ----------------------------
EXTENDS Integers, Sequences, FiniteSets, TLC, Json, IOUtils
VARIABLES c, q
B(t) == "all"
S == INSTANCE Send WITH Targets <- {}, Behaviour <- B, Chunks <- 0, Cap <- 0, ReaderCloses <- FALSE,
        left <- 0, buf <- 0, bufClosed <- FALSE, sender <- 0, reader <- 0, taken <- 0, results <- 0, closed <- FALSE
Init == c \in {x \in S!Cases : S!ValidCase(x)} /\ q = 0
Next == q = 0 /\ q' = 1 /\ UNCHANGED c
Spec == Init /\ [][Next]_<<c, q>>
Emit == q = 0 => PrintT(<<"INPUT", ToJson(c)>>)
=============================================================================
