--------------------------- MODULE MC_ClusterScen ---------------------------
EXTENDS ClusterScen, Json, IOUtils
IncludesQuick == {<<>>, <<"n2", "n1">>}
IncludesThorough == {<<>>, <<"n1">>, <<"n2", "n1">>}
Emit == q = 0 => PrintT(<<"INPUT", ToJson(sc)>>)
=============================================================================
