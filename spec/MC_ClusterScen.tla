--------------------------- MODULE MC_ClusterScen ---------------------------
EXTENDS ClusterScen, Json, IOUtils
Emit == q = 0 => PrintT(<<"INPUT", ToJson(sc)>>)
=============================================================================
