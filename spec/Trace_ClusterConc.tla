-------------------------- MODULE Trace_ClusterConc --------------------------
(* Judges the final state of every concurrent run (operation B executed inside *)
(* a window of operation A) with ClusterState's referential predicates (C22)   *)
(* and usage predicates (C10).                                                 *)
EXTENDS ClusterState, TraceBase
VARIABLES l
Pair(e) == e.a \o "||" \o e.b \o "/" \o e.pre
TraceInit == l = 1
TraceNext ==
    /\ l <= Len(Trace)
    /\ LET e == Trace[l]  s == e.snap IN
       /\ Report(e.retA # "hang" /\ e.retB # "hang", "C22", l, "operation-never-returned/" \o Pair(e))
       /\ Report(PodsOfNodesExist(s), "C22", l, "node-in-removed-pod/" \o Pair(e))
       /\ Report(NodesHaveResources(s), "C22", l, "node-without-resource-record/" \o Pair(e))
       /\ Report(ResourcesHaveNodes(s), "C22", l, "resource-record-without-node/" \o Pair(e))
       /\ Report(WorkloadsHaveNodes(s), "C22", l, "workload-on-unrecorded-node/" \o Pair(e))
       /\ Report(UsageIsSum(s), "C10", l, "usage-differs-from-workload-sum/concurrent/" \o Pair(e))
       /\ Report(NoOvercommit(s), "C10", l, "usage-above-capacity/concurrent/" \o Pair(e))
    /\ l' = l + 1
TraceSpec == TraceInit /\ [][TraceNext]_l
TraceAccepted == IF TLCGet("stats").diameter - 1 = Len(Trace)
                 THEN PrintT(<<"ACCEPTED", Len(Trace)>>)
                 ELSE PrintT(<<"REJECTED", TLCGet("stats").diameter - 1, Len(Trace)>>)
=============================================================================
