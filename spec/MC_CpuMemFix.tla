---------------------------- MODULE MC_CpuMemFix ----------------------------
(* Generator of drift / repair cases (C15): a node whose recorded usage has   *)
(* drifted arbitrarily (per core, memory, NUMA memory) from the workloads    *)
(* actually recorded on it (placed by the real allocator on an empty node).  *)
EXTENDS Integers, Sequences, FiniteSets, TLC, Json, IOUtils
CONSTANTS FixNodes, FixUsed, FixMem, FixKinds, FixMaxW
NC(n) == IF n = "numa6" THEN 6 ELSE IF n = "share3" THEN 3 ELSE IF n = "plain2" THEN 2 ELSE 4
KindSeqs == UNION {[1..m -> FixKinds] : m \in 0..FixMaxW}
FixCases == {[fix |-> [node |-> n, used |-> u, memUsed |-> m, numaMemUsed |-> nm, kinds |-> ks]] :
               n \in FixNodes, u \in UNION {[1..NC(x) -> FixUsed] : x \in FixNodes}, m \in FixMem,
               nm \in {<<0, 0>>, <<1, 0>>, <<2, 3>>}, ks \in KindSeqs}
GoodFix(c) == Len(c.fix.used) = NC(c.fix.node)
VARIABLE fx
FixInit == fx \in {c \in FixCases : GoodFix(c)}
FixSpec == FixInit /\ [][UNCHANGED fx]_fx
EmitFix == PrintT(<<"INPUT", ToJson(fx)>>)
=============================================================================
