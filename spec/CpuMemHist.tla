----------------------------- MODULE CpuMemHist -----------------------------
(***************************************************************************)
(* Bookkeeping of the resource manager + cpumem plugin over histories      *)
(* (resource/cobalt/alloc.go, realloc.go, remap.go, node.go; cpumem        *)
(* calculate.go, node.go): C08 usage = sum of live workloads and rollbacks *)
(* restore usage, C15 repair, C32 remap of unbound workloads, C33 keep-    *)
(* bind realloc keeps cores; plus C04 (no overcommit through the manager). *)
(*                                                                         *)
(* The state is what the plugin stores for the node (`usage`) and what the *)
(* caller holds (`live`: workload id -> resources the manager returned).   *)
(* Actions are the manager calls; the allocator itself is left abstract    *)
(* here (its result is any plan satisfying CpuMemProps) - the trace spec   *)
(* takes results from the logged replies.                                  *)
(***************************************************************************)
EXTENDS CpuMemProps

ZeroSeq(n) == [i \in 1..n |-> 0]

OverLive(live, F(_)) == Sum([i \in 1..Len(live) |-> F(live[i])])

LiveUsed(n, live) ==
    [used |-> [c \in Cores(n) |-> LET F(w) == w.cpu[c] IN OverLive(live, F)],
     memUsed |-> LET F(w) == w.mem IN OverLive(live, F),
     numaMemUsed |-> [k \in Numas(n) |-> LET F(w) == w.numaMem[k] IN OverLive(live, F)],
     cpu1000 |-> LET F(w) == w.cpu1000 IN OverLive(live, F)]

\* C08: what the plugin recorded for the node equals the sum over live workloads
UsageIsSum(n, usage, live) ==
    LET s == LiveUsed(n, live) IN
    /\ usage.extra = 0
    /\ usage.used = s.used
    /\ usage.memUsed = s.memUsed
    /\ usage.numaMemUsed = s.numaMemUsed
    /\ usage.cpu1000 = s.cpu1000

SameUsage(a, b) == /\ a.used = b.used /\ a.memUsed = b.memUsed
                   /\ a.numaMemUsed = b.numaMemUsed /\ a.cpu1000 = b.cpu1000

\* C04 through the manager: committed usage never exceeds capacity
NoOvercommit(n, usage) ==
    /\ \A c \in Cores(n) : usage.used[c] <= n.cap[c] /\ usage.used[c] >= 0
    /\ usage.memUsed <= n.mem /\ usage.memUsed >= 0
    /\ \A k \in Numas(n) : usage.numaMemUsed[k] <= n.numaMem[k] /\ usage.numaMemUsed[k] >= 0

Bound(w) == \E c \in 1..Len(w.cpu) : w.cpu[c] > 0

\* C32: remap gives every unbound workload exactly the free shared cores
ShareSet(n, usage) ==
    LET S == {c \in Cores(n) : n.cap[c] - usage.used[c] >= n.B} IN
    IF S = {} THEN Cores(n) ELSE S
RemapOK(n, usage, live, remap) ==
    /\ {remap[i].id : i \in 1..Len(remap)} = {live[i].id : i \in {j \in 1..Len(live) : ~Bound(live[j])}}
    /\ \A i \in 1..Len(remap) :
         /\ remap[i].extra = 0 /\ remap[i].remap
         /\ remap[i].cpus = [c \in Cores(n) |-> IF c \in ShareSet(n, usage) THEN n.B ELSE 0]

\* C33: keep-bind realloc with no CPU change keeps the workload on exactly its cores and NUMA node.
\* (The statement speaks of the cores, so the core SET is compared; which of them carries the
\* fractional share may change.)  Stated for workloads that can stay: a workload placed on a NUMA
\* node needs that node's memory to have room for the new memory request.
WholeCores(n) == \A c \in Cores(n) : n.cap[c] % n.B = 0
CoreSet(w) == {c \in 1..Len(w.cpu) : w.cpu[c] > 0}
CanStay(n, cur, before, after) ==
    before.numa > 0 => n.numaMem[before.numa] - (cur.numaMemUsed[before.numa] - before.numaMem[before.numa]) >= after.mem
KeepBindOK(n, cur, before, after) ==
    (WholeCores(n) /\ Bound(before) /\ CanStay(n, cur, before, after))
        => (CoreSet(after) = CoreSet(before) /\ after.numa = before.numa)

\* C05 on a re-allocated bound workload: pieces = recorded CPU, whole cores + <= 1 fraction
ReallocExact(n, after) ==
    Bound(after) =>
      LET tot == Sum(after.cpu)
          partial == {c \in Cores(n) : after.cpu[c] > 0 /\ after.cpu[c] # n.B} IN
      /\ Agrees(after.cpu1000, tot, n.B)
      /\ Cardinality(partial) <= 1
      /\ \A c \in partial : after.cpu[c] = tot % n.B

\* C15: after repair the usage is the sum of the recorded workloads and the check is clean
FixOK(n, e) ==
    /\ e.classFix = "ok" /\ e.classAfter = "ok"
    /\ UsageIsSum(n, e.usageAfter, e.live)
    /\ e.diffsAfter = 0
    /\ UsageIsSum(n, e.usageFix, e.live)
=============================================================================
