SPECIFICATION Spec
CONSTANTS
  Order <- Two
  MarkersFirst = TRUE
INVARIANTS CountInBounds ClosedClean RecoveredClean
PROPERTY Closes
CHECK_DEADLOCK FALSE
