SPECIFICATION Spec
CONSTANTS
  NodeKinds = {"numa4", "share3"}
  AllocKinds = {"b10", "b05", "b15", "u05", "ulim"}
  ReallocKinds = {"cpu+", "cpu-", "mem+", "mem-", "keep", "unbind", "bind", "memlim+", "cpureq-"}
  Slots = {1, 2}
  Depth = 2
CONSTRAINT EmitHist
CHECK_DEADLOCK FALSE
