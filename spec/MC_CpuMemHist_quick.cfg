SPECIFICATION Spec
CONSTANTS
  NodeKinds = {"numa4", "share3"}
  AllocKinds = {"b10", "b05", "b15", "u05"}
  ReallocKinds = {"cpu+", "cpu-", "mem+", "mem-", "keep", "unbind", "bind"}
  Slots = {1, 2}
  Depth = 2
CONSTRAINT EmitHist
CHECK_DEADLOCK FALSE
