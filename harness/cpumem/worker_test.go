package cpumem

// Supervisor/worker plumbing: the real plugin runs in a worker subprocess (this same test
// binary started with VERIF_WORKER=<kind>) so that a call that never returns, exhausts memory
// or crashes the process is observed as an event ("timeout"/"died") instead of killing the
// batch.  Parent and worker exchange one JSON line per case over inherited pipes (fd 3 / 4);
// the embedded etcd's own logging stays on stdout/stderr.

import (
	"bufio"
	"encoding/json"
	"fmt"
	"os"
	"os/exec"
	"runtime"
	"runtime/debug"
	"testing"
	"time"
)

type worker struct {
	cmd *exec.Cmd
	in  *os.File
	out *bufio.Reader
	ch  chan []byte
	tmp string // the worker's own temporary directory (its embedded etcd lives there): removed when the worker is killed
}

func startWorker(kind string) (*worker, error) {
	inR, inW, err := os.Pipe()
	if err != nil {
		return nil, err
	}
	outR, outW, err := os.Pipe()
	if err != nil {
		return nil, err
	}
	cmd := exec.Command(os.Args[0], "-test.run", "^TestWorker$", "-test.timeout", "0")
	if exe, err := os.Executable(); err == nil {
		cmd.Path = exe
		cmd.Args[0] = exe
	}
	tmp, err := os.MkdirTemp("", "verif-worker-")
	if err != nil {
		return nil, err
	}
	cmd.Env = append(os.Environ(), "VERIF_WORKER="+kind, "TMPDIR="+tmp)
	cmd.ExtraFiles = []*os.File{inR, outW}
	cmd.Stdout = nil
	cmd.Stderr = nil
	if os.Getenv("VERIF_WORKER_DEBUG") != "" {
		cmd.Stderr = os.Stderr
	}
	if err := cmd.Start(); err != nil {
		return nil, err
	}
	inR.Close()
	outW.Close()
	w := &worker{cmd: cmd, in: inW, out: bufio.NewReaderSize(outR, 1<<20), ch: make(chan []byte, 1), tmp: tmp}
	go func() {
		for {
			line, err := w.out.ReadBytes('\n')
			if err != nil {
				close(w.ch)
				return
			}
			w.ch <- line
		}
	}()
	// wait for readiness line
	select {
	case l, ok := <-w.ch:
		if !ok || string(l) != "ready\n" {
			w.kill()
			return nil, fmt.Errorf("worker did not become ready: %q", l)
		}
	case <-time.After(120 * time.Second):
		w.kill()
		return nil, fmt.Errorf("worker start timed out")
	}
	return w, nil
}

func (w *worker) kill() {
	if w.cmd.Process != nil {
		w.cmd.Process.Kill()
	}
	w.in.Close()
	w.cmd.Wait()
	if w.tmp != "" {
		os.RemoveAll(w.tmp)
	}
}

// call sends one case; returns (reply, "") or (nil, "timeout"|"died").
func (w *worker) call(req []byte, deadline time.Duration) ([]byte, string) {
	if _, err := w.in.Write(append(req, '\n')); err != nil {
		return nil, "died"
	}
	select {
	case l, ok := <-w.ch:
		if !ok {
			return nil, "died"
		}
		return l, ""
	case <-time.After(deadline):
		return nil, "timeout"
	}
}

// supervisor runs cases through workers, restarting them as needed.
type supervisor struct {
	kind     string
	w        *worker
	deadline time.Duration
	restarts int
}

func (s *supervisor) run(t testing.TB, req any) (map[string]any, string) {
	raw, _ := json.Marshal(req)
	for attempt := 0; ; attempt++ {
		if s.w == nil {
			w, err := startWorker(s.kind)
			if err != nil {
				if attempt < 3 {
					continue
				}
				t.Fatalf("cannot start worker: %v", err)
			}
			s.w = w
		}
		rep, fail := s.w.call(raw, s.deadline)
		if fail != "" {
			s.w.kill()
			s.w = nil
			s.restarts++
			return nil, fail
		}
		var m map[string]any
		if err := json.Unmarshal(rep, &m); err != nil {
			t.Fatalf("bad worker reply %q: %v", rep, err)
		}
		return m, ""
	}
}

func (s *supervisor) close() {
	if s.w != nil {
		s.w.kill()
		s.w = nil
	}
}

// TestWorker is the worker entry point (no-op unless VERIF_WORKER is set).
func TestWorker(t *testing.T) {
	kind := os.Getenv("VERIF_WORKER")
	if kind == "" {
		t.Skip("not a worker")
	}
	in := bufio.NewReaderSize(os.NewFile(3, "in"), 1<<20)
	out := os.NewFile(4, "out")
	// memory watchdog: a runaway allocation loop must end as a dead worker, not a dead machine
	go func() {
		var ms runtime.MemStats
		for {
			time.Sleep(20 * time.Millisecond)
			runtime.ReadMemStats(&ms)
			if ms.HeapAlloc > 3<<30 {
				os.Exit(3)
			}
		}
	}()
	debug.SetGCPercent(100)
	h := newHandler(t, kind)
	out.WriteString("ready\n")
	for {
		line, err := in.ReadBytes('\n')
		if err != nil {
			return
		}
		rep := h(line)
		b, err := json.Marshal(rep)
		if err != nil {
			b, _ = json.Marshal(map[string]any{"ev": "Crash", "kind": "marshal:" + err.Error()})
		}
		out.Write(append(b, '\n'))
	}
}
