package cpumem

// History driver: sequences of alloc / rollback-alloc / realloc / rollback-realloc / release /
// remap / fix committed through the real resource manager (cobalt.Manager) with the real cpumem
// plugin.  After every operation the plugin's own view of the node (GetNodeResourceInfo) and the
// harness's list of live workloads (with the resources the manager returned for them) are logged.

import (
	"context"
	"encoding/json"
	"fmt"
	"math/rand"
	"sort"
	"sync"
	"sync/atomic"
	"testing"
	"time"

	"github.com/projecteru2/core/resource/cobalt"
	"github.com/projecteru2/core/resource/plugins"
	plugintypes "github.com/projecteru2/core/resource/plugins/types"
	resourcetypes "github.com/projecteru2/core/resource/types"
	coretypes "github.com/projecteru2/core/types"
	"verif/harness/vt"
)

type histOp struct {
	Op   string `json:"op"`   // alloc | rbAlloc | realloc | rbRealloc | release | remap | drift | fix
	Kind string `json:"kind"` // request kind (alloc/realloc) or drift kind
	K    int    `json:"k"`    // instances (alloc)
	W    int    `json:"w"`    // workload slot (1-based index into the live list, modulo its length)
}

type histIn struct {
	Node nodeSt   `json:"node"`
	Ops  []histOp `json:"ops"`
	Run  int      `json:"run"`
}

type liveW struct {
	id  string
	res resourcetypes.Resources
}

type mgrEnv struct {
	mgrs map[[2]int]*cobalt.Manager
	t    *testing.T
}

func (e *mgrEnv) mgr(B, ms int) *cobalt.Manager {
	k := [2]int{B, ms}
	if m, ok := e.mgrs[k]; ok {
		return m
	}
	cfg := coretypes.Config{
		GlobalTimeout: 30 * time.Second,
		Etcd:          coretypes.EtcdConfig{Prefix: "/cpumem"},
		Scheduler:     coretypes.SchedulerConfig{MaxShare: ms, ShareBase: B},
	}
	m, err := cobalt.New(cfg)
	if err != nil {
		panic(err)
	}
	if err := m.LoadPlugins(context.Background(), e.t); err != nil {
		panic(err)
	}
	e.mgrs[k] = m
	return m
}

// request kinds: cpu in pieces of 1/B (B must be even), memory units
func allocOpts(kind string, B int) resourcetypes.Resources {
	var bind bool
	var cpu float64
	var mem int64
	switch kind {
	case "b10":
		bind, cpu, mem = true, 1.0, 1
	case "b05":
		bind, cpu, mem = true, 0.5, 1
	case "b15":
		bind, cpu, mem = true, 1.5, 1
	case "b20":
		bind, cpu, mem = true, 2.0, 0
	case "b115": // hundredths of a core whose product with the share base is not exact in floating point (1.15 * 100 = 114.99...)
		bind, cpu, mem = true, 1.15, 1
	case "b057":
		bind, cpu, mem = true, 0.57, 1
	case "b229":
		bind, cpu, mem = true, 2.29, 1
	case "u05":
		bind, cpu, mem = false, 0.5, 1
	case "u00":
		bind, cpu, mem = false, 0, 2
	case "ulim": // request below limit (cpu 0.5 / 1.0), no memory limit at all: the plugin normalises such requests
		return resourcetypes.Resources{"cpumem": resourcetypes.RawParams{"cpu-bind": false, "cpu-request": 0.5, "cpu-limit": 1.0, "memory-request": int64(0), "memory-limit": int64(0)}}
	default:
		panic("alloc kind " + kind)
	}
	return resourcetypes.Resources{"cpumem": resourcetypes.RawParams{"cpu-bind": bind, "cpu-request": cpu, "cpu-limit": cpu, "memory-request": mem, "memory-limit": mem}}
}

func reallocOpts(kind string) resourcetypes.Resources {
	p := resourcetypes.RawParams{"keep-cpu-bind": true, "cpu-request": 0.0, "cpu-limit": 0.0, "memory-request": int64(0), "memory-limit": int64(0)}
	switch kind {
	case "cpu+": // grow by half a core, keep binding
		p["cpu-request"], p["cpu-limit"] = 0.5, 0.5
	case "cpu-":
		p["cpu-request"], p["cpu-limit"] = -0.5, -0.5
	case "mem+":
		p["memory-request"], p["memory-limit"] = int64(1), int64(1)
	case "mem-":
		p["memory-request"], p["memory-limit"] = int64(-1), int64(-1)
	case "memlim+": // only the memory LIMIT is given: the request follows it when it was zero
		p["memory-limit"] = int64(1)
	case "cpureq-": // only the cpu REQUEST is lowered
		p["cpu-request"] = -0.5
	case "keep": // nothing changes
	case "unbind":
		p["keep-cpu-bind"], p["cpu-bind"] = false, false
	case "bind":
		p["keep-cpu-bind"], p["cpu-bind"] = false, true
	default:
		panic("realloc kind " + kind)
	}
	return resourcetypes.Resources{"cpumem": p}
}

func (e *mgrEnv) history(in *histIn) []map[string]any {
	ctx := context.Background()
	nd := &in.Node
	m := e.mgr(nd.B, nd.MS)
	p := m.GetPlugins()[0]
	node := "h"
	ncore, nnuma := len(nd.Cap), len(nd.NumaMem)
	evs := []map[string]any{}
	if _, err := p.SetNodeResourceInfo(ctx, node, nd.rawCapacity(), nd.rawUsage()); err != nil {
		vt.NoteErr(err)
		return []map[string]any{{"ev": "BadInput", "err": err.Error()}}
	}
	evs = append(evs, map[string]any{"ev": "HistStart", "run": in.Run, "node": nd})
	live := []*liveW{}
	seq := 0
	type undo struct {
		kind  string // alloc | realloc
		ws    []resourcetypes.Resources
		ids   []string
		w     *liveW
		old   resourcetypes.Resources
		delta resourcetypes.Resources
	}
	var last *undo
	workloads := func() []*coretypes.Workload {
		ws := []*coretypes.Workload{}
		for _, l := range live {
			ws = append(ws, &coretypes.Workload{ID: l.id, Resources: l.res})
		}
		return ws
	}
	for _, op := range in.Ops {
		ev := map[string]any{"ev": "HistOp", "run": in.Run, "op": op.Op, "kind": op.Kind, "k": op.K, "class": "skip", "w": "", "remap": []any{}, "before": map[string]any{}, "after": map[string]any{}}
		pick := func() *liveW {
			if len(live) == 0 {
				return nil
			}
			return live[(op.W-1+len(live))%len(live)]
		}
		switch op.Op {
		case "alloc":
			ws, _, err := m.Alloc(ctx, node, op.K, allocOpts(op.Kind, nd.B))
			ev["class"] = classOf(err)
			last = nil
			if err == nil {
				u := &undo{kind: "alloc", ws: ws}
				for _, r := range ws {
					seq++
					id := fmt.Sprintf("w%d", seq)
					live = append(live, &liveW{id: id, res: r})
					u.ids = append(u.ids, id)
				}
				last = u
			}
		case "rbAlloc":
			if last == nil || last.kind != "alloc" {
				break
			}
			err := m.RollbackAlloc(ctx, node, last.ws)
			ev["class"] = classOf(err)
			if err == nil {
				keep := live[:0]
				for _, l := range live {
					gone := false
					for _, id := range last.ids {
						if id == l.id {
							gone = true
						}
					}
					if !gone {
						keep = append(keep, l)
					}
				}
				live = keep
			}
			last = nil
		case "realloc":
			w := pick()
			last = nil
			if w == nil {
				break
			}
			ev["w"] = w.id
			ev["before"] = projectWorkload(w.res["cpumem"], ncore, nnuma)
			_, delta, res, err := m.Realloc(ctx, node, w.res, reallocOpts(op.Kind))
			ev["class"] = classOf(err)
			if err == nil {
				last = &undo{kind: "realloc", w: w, old: w.res, delta: delta}
				w.res = res
				ev["after"] = projectWorkload(w.res["cpumem"], ncore, nnuma)
			}
		case "rbRealloc":
			if last == nil || last.kind != "realloc" {
				break
			}
			err := m.RollbackRealloc(ctx, node, last.delta)
			ev["class"] = classOf(err)
			ev["w"] = last.w.id
			if err == nil {
				last.w.res = last.old
			}
			last = nil
		case "release":
			w := pick()
			last = nil
			if w == nil {
				break
			}
			ev["w"] = w.id
			// the release is made through the plugin itself (what the manager's commit step does for each plugin), so that
			// what the plugin REPORTS as the usage before and after the call is seen: the manager's rollback relies on it
			resp, err := p.SetNodeResourceUsage(ctx, node, nil, nil, []plugintypes.WorkloadResource{plugintypes.WorkloadResource(w.res["cpumem"])}, true, plugins.Decr)
			ev["class"] = classOf(err)
			if err == nil && resp != nil {
				ev["retBefore"] = projectUsage(resp.Before, ncore, nnuma)
				ev["retAfter"] = projectUsage(resp.After, ncore, nnuma)
			}
			if err == nil {
				keep := live[:0]
				for _, l := range live {
					if l != w {
						keep = append(keep, l)
					}
				}
				live = keep
			}
		case "remap":
			rm, err := m.Remap(ctx, node, workloads())
			ev["class"] = classOf(err)
			if err == nil {
				ids := []string{}
				for id := range rm {
					ids = append(ids, id)
				}
				sort.Strings(ids)
				out := []any{}
				for _, id := range ids {
					ep := rm[id]["cpumem"]
					cm := map[string]int{}
					if raw, ok := ep["cpu_map"]; ok {
						b, _ := json.Marshal(raw)
						json.Unmarshal(b, &cm)
					}
					arr, extra := cpuArr(cm, ncore)
					remapFlag, _ := ep["remap"].(bool)
					out = append(out, map[string]any{"id": id, "cpus": arr, "extra": extra, "remap": remapFlag})
				}
				ev["remap"] = out
			}
		case "drift", "fix":
			// handled by the fix driver (C15); not part of bookkeeping histories
		}
		// observation: the plugin's view and the live workloads
		lw := []any{}
		for _, l := range live {
			pw := projectWorkload(l.res["cpumem"], ncore, nnuma)
			pw["id"] = l.id
			lw = append(lw, pw)
		}
		ev["live"] = lw
		capn, usage, diffs, err := m.GetNodeResourceInfo(ctx, node, workloads(), false)
		if err != nil {
			vt.NoteErr(err)
			ev["usage"] = projectUsage(nil, ncore, nnuma)
			ev["diffs"] = -1
		} else {
			ev["usage"] = projectUsage(usage["cpumem"], ncore, nnuma)
			ev["diffs"] = len(diffs)
			_ = capn
		}
		evs = append(evs, ev)
	}
	return evs
}

// ---- fix (C15): write a drifted node, record workloads, run the node resource repair ----
type fixIn struct {
	Node  nodeSt   `json:"node"`  // node whose `used`/`memUsed`/`numaMemUsed` are the DRIFTED values
	Kinds []string `json:"kinds"` // workloads actually recorded: alloc kinds placed by the real allocator on an empty node
	Run   int      `json:"run"`
}

func (e *mgrEnv) fixCase(in *fixIn) []map[string]any {
	ctx := context.Background()
	nd := in.Node
	m := e.mgr(nd.B, nd.MS)
	p := m.GetPlugins()[0]
	node := "f"
	ncore, nnuma := len(nd.Cap), len(nd.NumaMem)
	// 1. place the workloads on an EMPTY copy of the node with the real allocator
	empty := nd
	empty.Used = make([]int, ncore)
	empty.MemUsed = 0
	empty.NumaMemUsed = make([]int64, nnuma)
	if _, err := p.SetNodeResourceInfo(ctx, node, empty.rawCapacity(), empty.rawUsage()); err != nil {
		vt.NoteErr(err)
		return []map[string]any{{"ev": "BadInput", "err": err.Error()}}
	}
	ws := []*coretypes.Workload{}
	lw := []any{}
	for i, k := range in.Kinds {
		r, _, err := m.Alloc(ctx, node, 1, allocOpts(k, nd.B))
		if vt.NoteErr(err) || err != nil {
			continue
		}
		id := fmt.Sprintf("f%d", i)
		ws = append(ws, &coretypes.Workload{ID: id, Resources: r[0]})
		pw := projectWorkload(r[0]["cpumem"], ncore, nnuma)
		pw["id"] = id
		lw = append(lw, pw)
	}
	// 2. overwrite usage with the drifted one
	if _, err := p.SetNodeResourceInfo(ctx, node, nd.rawCapacity(), nd.rawUsage()); err != nil {
		vt.NoteErr(err)
		return []map[string]any{{"ev": "BadInput", "err": err.Error()}}
	}
	ev := map[string]any{"ev": "FixCase", "run": in.Run, "node": nd, "live": lw}
	_, _, d0, err := m.GetNodeResourceInfo(ctx, node, ws, false)
	ev["diffsBefore"] = len(d0)
	ev["class0"] = classOf(err)
	_, u1, d1, err := m.GetNodeResourceInfo(ctx, node, ws, true)
	ev["classFix"] = classOf(err)
	ev["diffsFix"] = len(d1)
	ev["usageFix"] = projectUsage(u1["cpumem"], ncore, nnuma)
	_, u2, d2, err := m.GetNodeResourceInfo(ctx, node, ws, false)
	ev["classAfter"] = classOf(err)
	ev["diffsAfter"] = len(d2)
	ev["usageAfter"] = projectUsage(u2["cpumem"], ncore, nnuma)
	return []map[string]any{ev}
}

func newHistHandler(pe *plugEnv) func([]byte) map[string]any {
	e := &mgrEnv{mgrs: map[[2]int]*cobalt.Manager{}, t: pe.t}
	e.mgr(2, -1)
	return func(raw []byte) map[string]any {
		var req struct {
			Op   string  `json:"op"`
			Hist *histIn `json:"hist"`
			Fix  *fixIn  `json:"fix"`
		}
		if err := json.Unmarshal(raw, &req); err != nil {
			return map[string]any{"ev": "Crash", "kind": "badreq", "msg": err.Error()}
		}
		var evs []map[string]any
		crash := safely(nil, func() map[string]any {
			if req.Op == "fix" {
				evs = e.fixCase(req.Fix)
			} else {
				evs = e.history(req.Hist)
			}
			return nil
		})
		if crash != nil {
			return crash
		}
		return map[string]any{"ev": "Batch", "events": evs}
	}
}

// hist nodes: B=2 (pieces of half a core), whole-core capacities
func histNode(kind string) nodeSt {
	switch kind {
	case "plain4":
		return nodeSt{B: 2, MS: -1, Cap: []int{2, 2, 2, 2}, Used: []int{0, 0, 0, 0}, Numa: []int{0, 0, 0, 0}, Mem: 8, NumaMem: []int64{}, NumaMemUsed: []int64{}}
	case "numa4":
		return nodeSt{B: 2, MS: -1, Cap: []int{2, 2, 2, 2}, Used: []int{0, 0, 0, 0}, Numa: []int{1, 1, 2, 2}, Mem: 8, NumaMem: []int64{4, 4}, NumaMemUsed: []int64{0, 0}}
	case "numa6":
		return nodeSt{B: 2, MS: -1, Cap: []int{2, 2, 2, 2, 2, 2}, Used: []int{0, 0, 0, 0, 0, 0}, Numa: []int{1, 1, 1, 2, 2, 2}, Mem: 10, NumaMem: []int64{5, 5}, NumaMemUsed: []int64{0, 0}}
	case "share3": // node added with share 4 = two full shares per core
		return nodeSt{B: 2, MS: 2, Cap: []int{4, 4, 4}, Used: []int{0, 0, 0}, Numa: []int{0, 0, 0}, Mem: 6, NumaMem: []int64{}, NumaMemUsed: []int64{}}
	case "cent4": // share base 100: a core is sold in hundredths
		return nodeSt{B: 100, MS: -1, Cap: []int{100, 100, 100, 100}, Used: []int{0, 0, 0, 0}, Numa: []int{1, 1, 2, 2}, Mem: 8, NumaMem: []int64{4, 4}, NumaMemUsed: []int64{0, 0}}
	case "plain2":
		return nodeSt{B: 2, MS: -1, Cap: []int{2, 2}, Used: []int{0, 0}, Numa: []int{0, 0}, Mem: 3, NumaMem: []int64{}, NumaMemUsed: []int64{}}
	}
	panic("node kind " + kind)
}

var histNodeKinds = []string{"plain4", "numa4", "numa6", "share3", "plain2"}
var allocKinds = []string{"b10", "b05", "b15", "b20", "u05", "u00", "ulim"}
var reallocKinds = []string{"cpu+", "cpu-", "mem+", "mem-", "keep", "unbind", "bind", "memlim+", "cpureq-"}

func randHist(rng *rand.Rand, run int) *histIn {
	in := &histIn{Node: histNode(histNodeKinds[rng.Intn(len(histNodeKinds))]), Run: run}
	n := 4 + rng.Intn(12)
	for i := 0; i < n; i++ {
		var op histOp
		switch r := rng.Intn(20); {
		case r < 6:
			op = histOp{Op: "alloc", Kind: allocKinds[rng.Intn(len(allocKinds))], K: 1 + rng.Intn(2)}
		case r < 12:
			op = histOp{Op: "realloc", Kind: reallocKinds[rng.Intn(len(reallocKinds))], W: 1 + rng.Intn(4)}
		case r < 14:
			op = histOp{Op: "release", W: 1 + rng.Intn(4)}
		case r < 16:
			op = histOp{Op: "rbAlloc"}
			if len(in.Ops) > 0 && in.Ops[len(in.Ops)-1].Op == "realloc" {
				op.Op = "rbRealloc"
			}
		default:
			op = histOp{Op: "remap"}
		}
		in.Ops = append(in.Ops, op)
	}
	return in
}

// TestCpuMemHistory replays TLC-generated operation sequences (VERIF_INPUTS: {node, ops}) and
// seeded random longer ones through cobalt.Manager + cpumem.
func TestCpuMemHistory(t *testing.T) {
	out := vt.OpenTrace(t)
	defer out.Close()
	par := vt.EnvInt("VERIF_PAR", 8)
	ch := make(chan map[string]any, 256)
	var wg sync.WaitGroup
	var mu sync.Mutex // a history's events must stay contiguous in the trace
	var n, crashes int64
	for w := 0; w < par; w++ {
		wg.Add(1)
		go func() {
			defer wg.Done()
			sup := &supervisor{kind: "hist", deadline: 30 * time.Second}
			defer sup.close()
			for req := range ch {
				ev, fail := sup.run(t, req)
				if fail == "" && ev["ev"] == "EnvFail" {
					vt.NoteEnvDrop()
					continue
				}
				mu.Lock()
				if fail != "" {
					atomic.AddInt64(&crashes, 1)
					out.Emit(map[string]any{"ev": "Crash", "kind": fail, "in": req, "msg": ""})
				} else if ev["ev"] == "Batch" {
					for _, x := range ev["events"].([]any) {
						out.Emit(x.(map[string]any))
					}
				} else {
					if ev["ev"] == "Crash" {
						atomic.AddInt64(&crashes, 1)
						ev["in"] = req
					}
					out.Emit(ev)
				}
				mu.Unlock()
				atomic.AddInt64(&n, 1)
			}
		}()
	}
	run := 0
	vt.EachInput(t, func(raw []byte) {
		var x struct {
			Node string   `json:"node"`
			Ops  []histOp `json:"ops"`
			Fix  *struct {
				Node  string   `json:"node"`
				Used  []int    `json:"used"`
				Mem   int64    `json:"memUsed"`
				NMem  []int64  `json:"numaMemUsed"`
				Kinds []string `json:"kinds"`
			} `json:"fix"`
		}
		vt.MustUnmarshal(t, raw, &x)
		run++
		if x.Fix != nil {
			nd := histNode(x.Fix.Node)
			nd.Used, nd.MemUsed = x.Fix.Used, x.Fix.Mem
			if len(nd.NumaMem) > 0 {
				nd.NumaMemUsed = x.Fix.NMem
			}
			ch <- map[string]any{"op": "fix", "fix": &fixIn{Node: nd, Kinds: x.Fix.Kinds, Run: run}}
			return
		}
		ch <- map[string]any{"op": "hist", "hist": &histIn{Node: histNode(x.Node), Ops: x.Ops, Run: run}}
	})
	rng := rand.New(rand.NewSource(vt.Seed()))
	for i := 0; i < vt.EnvInt("VERIF_RANDOM", 0); i++ {
		run++
		ch <- map[string]any{"op": "hist", "hist": randHist(rng, run)}
	}
	close(ch)
	wg.Wait()
	t.Logf("cpumem histories: %d, crash events: %d", n, crashes)
}
