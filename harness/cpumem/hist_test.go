package cpumem

func newHistHandler(e *plugEnv) func([]byte) map[string]any {
	return func(raw []byte) map[string]any { return map[string]any{"ev": "Crash", "kind": "unimplemented"} }
}
