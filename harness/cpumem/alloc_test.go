package cpumem

import (
	"context"
	"encoding/json"
	"errors"
	"fmt"
	"math"
	"math/rand"
	"sort"
	"strconv"
	"sync"
	"sync/atomic"
	"testing"
	"time"

	"github.com/projecteru2/core/resource/plugins/cpumem"
	cmtypes "github.com/projecteru2/core/resource/plugins/cpumem/types"
	plugintypes "github.com/projecteru2/core/resource/plugins/types"
	coretypes "github.com/projecteru2/core/types"
	"verif/harness/vt"
)

// nodeSt is the projected node state shared with the TLA+ side (arrays indexed by core / NUMA node).
type nodeSt struct {
	B           int     `json:"B"`
	MS          int     `json:"ms"`
	Cap         []int   `json:"cap"`
	Used        []int   `json:"used"`
	Numa        []int   `json:"numa"` // 0 = no NUMA, else 1..len(NumaMem)
	Mem         int64   `json:"mem"`
	MemUsed     int64   `json:"memUsed"`
	NumaMem     []int64 `json:"numaMem"`
	NumaMemUsed []int64 `json:"numaMemUsed"`
}

type allocIn struct {
	nodeSt
	Bind   bool  `json:"bind"`
	Cpu    int   `json:"cpu"` // requested CPU in pieces of 1/B core
	Sub    int   `json:"sub"` // plus this many tenths of a piece (requests finer than the share base)
	MemReq int64 `json:"memReq"`
}

func coreID(i int) string       { return strconv.Itoa(i) }
func numaID(j int) string       { return strconv.Itoa(j - 1) } // NUMA node j (1-based) is "j-1"
func cpuFloat(p, B int) float64 { return float64(p) / float64(B) }

func (n *nodeSt) rawCapacity() plugintypes.NodeResource {
	cm := map[string]int{}
	numa := map[string]string{}
	for i, c := range n.Cap {
		cm[coreID(i)] = c
		if n.Numa[i] > 0 {
			numa[coreID(i)] = numaID(n.Numa[i])
		}
	}
	nm := map[string]int64{}
	for j, m := range n.NumaMem {
		nm[numaID(j+1)] = m
	}
	return plugintypes.NodeResource{"cpu": float64(len(n.Cap)), "cpu_map": cm, "memory": n.Mem, "numa_memory": nm, "numa": numa}
}

func (n *nodeSt) rawUsage() plugintypes.NodeResource {
	cm := map[string]int{}
	tot := 0
	for i, c := range n.Used {
		cm[coreID(i)] = c
		tot += c
	}
	nm := map[string]int64{}
	for j, m := range n.NumaMemUsed {
		nm[numaID(j+1)] = m
	}
	return plugintypes.NodeResource{"cpu": float64(tot) / float64(n.B), "cpu_map": cm, "memory": n.MemUsed, "numa_memory": nm, "numa": map[string]string{}}
}

func classOf(err error) string {
	vt.NoteErr(err)
	switch {
	case err == nil:
		return "ok"
	case errors.Is(err, coretypes.ErrInsufficientResource), errors.Is(err, coretypes.ErrInsufficientCapacity):
		return "insufficient"
	case errors.Is(err, cmtypes.ErrInvalidCPUMap), errors.Is(err, cmtypes.ErrInvalidNUMAMemory), errors.Is(err, cmtypes.ErrInvalidNUMACPU),
		errors.Is(err, cmtypes.ErrInvalidCapacity), errors.Is(err, cmtypes.ErrInvalidCPU), errors.Is(err, cmtypes.ErrInvalidMemory):
		return "invalid"
	default:
		return "other"
	}
}

type plugEnv struct {
	t       *testing.T
	plugins map[[2]int]*cpumem.Plugin
}

func (e *plugEnv) plugin(B, ms int) *cpumem.Plugin {
	k := [2]int{B, ms}
	if p, ok := e.plugins[k]; ok {
		return p
	}
	cfg := coretypes.Config{
		Etcd:      coretypes.EtcdConfig{Prefix: "/cpumem"},
		Scheduler: coretypes.SchedulerConfig{MaxShare: ms, ShareBase: B},
	}
	p, err := cpumem.NewPlugin(context.Background(), cfg, e.t)
	if err != nil {
		panic(err)
	}
	e.plugins[k] = p
	return p
}

// cpuArr projects a CPUMap onto the node's core array; extra counts keys that are not cores of the node.
func cpuArr(m cmtypes.CPUMap, n int) ([]int, int) {
	arr := make([]int, n)
	extra := 0
	for k, v := range m {
		i, err := strconv.Atoi(k)
		if err != nil || i < 0 || i >= n {
			extra++
			continue
		}
		arr[i] = v
	}
	return arr, extra
}

func numaIdx(id string, n int) int {
	if id == "" {
		return 0
	}
	j, err := strconv.Atoi(id)
	if err != nil || j < 0 || j >= n {
		return -1
	}
	return j + 1
}

func memArr(m cmtypes.NUMAMemory, n int) ([]int64, int) {
	arr := make([]int64, n)
	extra := 0
	for k, v := range m {
		j, err := strconv.Atoi(k)
		if err != nil || j < 0 || j >= n {
			if v != 0 {
				extra++
			}
			continue
		}
		arr[j] = v
	}
	return arr, extra
}

func projectUsage(raw plugintypes.NodeResource, ncore, nnuma int) map[string]any {
	nr := &cmtypes.NodeResource{}
	if err := nr.Parse(raw); err != nil {
		return map[string]any{"used": []int{}, "extra": 1, "memUsed": 0, "numaMemUsed": []int64{}, "cpu1000": 0}
	}
	used, extra := cpuArr(nr.CPUMap, ncore)
	nm, ex2 := memArr(nr.NUMAMemory, nnuma)
	return map[string]any{"used": used, "extra": extra + ex2, "memUsed": nr.Memory, "numaMemUsed": nm, "cpu1000": int(math.Round(nr.CPU * 1000))}
}

func projectWorkload(raw plugintypes.WorkloadResource, ncore, nnuma int) map[string]any {
	wr := &cmtypes.WorkloadResource{}
	if err := wr.Parse(raw); err != nil {
		return map[string]any{"cpu": []int{}, "extra": 1, "numa": -1, "mem": 0, "numaMem": []int64{}, "cpu1000": 0, "lim1000": 0, "memLim": 0}
	}
	cpu, extra := cpuArr(wr.CPUMap, ncore)
	nm, ex2 := memArr(wr.NUMAMemory, nnuma)
	return map[string]any{"cpu": cpu, "extra": extra + ex2, "numa": numaIdx(wr.NUMANode, nnuma), "mem": wr.MemoryRequest, "memLim": wr.MemoryLimit,
		"numaMem": nm, "cpu1000": int(math.Round(wr.CPURequest * 1000)), "lim1000": int(math.Round(wr.CPULimit * 1000))}
}

func reqOf(in *allocIn) plugintypes.WorkloadResourceRequest {
	c := (float64(in.Cpu) + float64(in.Sub)/10) / float64(in.B)
	return plugintypes.WorkloadResourceRequest{"cpu-bind": in.Bind, "cpu-request": c, "cpu-limit": c, "memory-request": in.MemReq, "memory-limit": in.MemReq}
}

func jcap(c int) int {
	if c == math.MaxInt {
		return -1
	}
	return c
}

func (e *plugEnv) allocCase(in *allocIn) map[string]any {
	ctx := context.Background()
	p := e.plugin(in.B, in.MS)
	node := "n"
	ncore, nnuma := len(in.Cap), len(in.NumaMem)
	ev := map[string]any{"ev": "AllocCase", "in": in}
	if _, err := p.SetNodeResourceInfo(ctx, node, in.rawCapacity(), in.rawUsage()); err != nil {
		vt.NoteErr(err)
		return map[string]any{"ev": "BadInput", "in": in, "err": err.Error()}
	}
	req := reqOf(in)
	// 1. reported capacity
	capRep := map[string]any{"class": "ok", "offered": false, "cap": 0, "total": 0}
	cr, err := p.GetNodesDeployCapacity(ctx, []string{node}, req)
	capacity := 0
	if err != nil {
		capRep["class"] = classOf(err)
	} else {
		if c, ok := cr.NodeDeployCapacityMap[node]; ok {
			capRep["offered"] = true
			capRep["cap"] = jcap(c.Capacity)
			capacity = c.Capacity
		}
		capRep["total"] = jcap(cr.Total)
	}
	ev["capRep"] = capRep
	// 2. allocation attempts around the reported capacity
	ks := []int{1}
	if capacity == math.MaxInt {
		ks = append(ks, 3)
	} else {
		for _, k := range []int{capacity - 1, capacity, capacity + 1} {
			if k >= 1 {
				ks = append(ks, k)
			}
		}
	}
	sort.Ints(ks)
	tries := []map[string]any{}
	var commitK int
	var commitWs []plugintypes.WorkloadResource
	last := 0
	for _, k := range ks {
		if k == last {
			continue
		}
		last = k
		resp, err := p.CalculateDeploy(ctx, node, k, req)
		try := map[string]any{"k": k, "class": classOf(err), "plans": []map[string]any{}, "nEngine": 0}
		if err == nil {
			plans := []map[string]any{}
			for _, w := range resp.WorkloadsResource {
				plans = append(plans, projectWorkload(w, ncore, nnuma))
			}
			try["plans"] = plans
			try["nEngine"] = len(resp.EnginesParams)
			commitK, commitWs = k, resp.WorkloadsResource
		}
		tries = append(tries, try)
	}
	ev["tries"] = tries
	// 3. commit the largest accepted allocation, read the usage back, re-read capacity
	commit := map[string]any{"k": 0, "class": "none", "after": projectUsage(in.rawUsage(), ncore, nnuma), "capAfter": -2}
	if commitK > 0 {
		commit["k"] = commitK
		_, err := p.SetNodeResourceUsage(ctx, node, nil, nil, commitWs, true, true)
		commit["class"] = classOf(err)
		if info, err2 := p.GetNodeResourceInfo(ctx, node, nil); err2 == nil {
			commit["after"] = projectUsage(info.Usage, ncore, nnuma)
		}
		if err == nil {
			if cr2, err3 := p.GetNodesDeployCapacity(ctx, []string{node}, req); err3 == nil {
				commit["capAfter"] = 0
				if c, ok := cr2.NodeDeployCapacityMap[node]; ok {
					commit["capAfter"] = jcap(c.Capacity)
				}
			}
		}
	}
	ev["commit"] = commit
	return ev
}

// capMulti: the same request asked of three nodes at once; offered set and saturating total.
func (e *plugEnv) capMulti(ins []*allocIn) map[string]any {
	ctx := context.Background()
	first := ins[0]
	p := e.plugin(first.B, first.MS)
	names := []string{}
	single := []int{}
	for i, in := range ins {
		name := fmt.Sprintf("m%d", i)
		x := *in
		if _, err := p.SetNodeResourceInfo(ctx, name, x.rawCapacity(), x.rawUsage()); err != nil {
			vt.NoteErr(err)
			return map[string]any{"ev": "BadInput", "in": in, "err": err.Error()}
		}
		names = append(names, name)
		c := 0
		if r, err := p.GetNodesDeployCapacity(ctx, []string{name}, reqOf(first)); err == nil {
			if v, ok := r.NodeDeployCapacityMap[name]; ok {
				c = v.Capacity
			}
		}
		single = append(single, jcap(c))
	}
	r, err := p.GetNodesDeployCapacity(ctx, names, reqOf(first))
	ev := map[string]any{"ev": "CapMulti", "single": single, "class": classOf(err), "caps": []int{}, "total": 0}
	if err == nil {
		caps := []int{}
		for _, nme := range names {
			if v, ok := r.NodeDeployCapacityMap[nme]; ok {
				caps = append(caps, jcap(v.Capacity))
			} else {
				caps = append(caps, 0)
			}
		}
		ev["caps"] = caps
		ev["total"] = jcap(r.Total)
		ev["extra"] = len(r.NodeDeployCapacityMap) - countPos(caps)
	}
	return ev
}

func countPos(a []int) int {
	n := 0
	for _, x := range a {
		if x != 0 {
			n++
		}
	}
	return n
}

func safely(in any, f func() map[string]any) (ev map[string]any) {
	defer func() {
		if r := recover(); r != nil {
			ev = map[string]any{"ev": "Crash", "kind": "panic", "in": in, "msg": fmt.Sprint(r)}
		}
	}()
	return f()
}

// ---- random generation of wide node states (B=100, up to 8 cores, arbitrary shares) ----
func randAlloc(rng *rand.Rand) *allocIn {
	B := []int{100, 100, 10, 4, 7}[rng.Intn(5)]
	ms := []int{-1, -1, 1, 2, 3}[rng.Intn(5)]
	nc := 1 + rng.Intn(8)
	in := &allocIn{}
	in.B, in.MS = B, ms
	numaOn := nc >= 2 && rng.Intn(2) == 0
	split := 1 + rng.Intn(nc)
	for i := 0; i < nc; i++ {
		c := B
		switch rng.Intn(6) {
		case 0:
			c = 2 * B
		case 1:
			c = B + rng.Intn(B)
		case 2:
			c = 1 + rng.Intn(B)
		}
		u := 0
		switch rng.Intn(4) {
		case 0:
			u = rng.Intn(c + 1)
		case 1:
			u = c
		case 2:
			if c >= B {
				u = c - B
			}
		}
		in.Cap = append(in.Cap, c)
		in.Used = append(in.Used, u)
		nn := 0
		if numaOn {
			nn = 1
			if i >= split {
				nn = 2
			}
		}
		in.Numa = append(in.Numa, nn)
	}
	in.Mem = int64(rng.Intn(9))
	in.MemUsed = int64(rng.Intn(int(in.Mem) + 1))
	in.NumaMem, in.NumaMemUsed = []int64{}, []int64{}
	if numaOn {
		a := int64(rng.Intn(int(in.Mem) + 1))
		in.NumaMem = []int64{a, in.Mem - a}
		left := in.MemUsed
		u1 := int64(rng.Intn(int(min64(a, left)) + 1))
		left -= u1
		u2 := int64(rng.Intn(int(min64(in.Mem-a, left)) + 1))
		in.NumaMemUsed = []int64{u1, u2}
		if split >= nc { // every core on NUMA node 1: node 2 has memory but no cores (legal)
		}
	}
	in.Bind = rng.Intn(4) != 0
	in.Cpu = 1 + rng.Intn(3*B)
	if rng.Intn(3) == 0 {
		in.Cpu = B * (1 + rng.Intn(3))
	}
	if !in.Bind && rng.Intn(3) == 0 {
		in.Cpu = 0
	}
	in.MemReq = int64(rng.Intn(4))
	if in.Bind && rng.Intn(10) == 0 {
		in.Sub = []int{2, 4, 6, 8}[rng.Intn(4)]
		if rng.Intn(2) == 0 {
			in.Cpu = 0 // less than one piece
		}
	}
	return in
}

func min64(a, b int64) int64 {
	if a < b {
		return a
	}
	return b
}

// newHandler: the worker's request handler; a request during which the embedded etcd failed is answered "EnvFail"
func newHandler(t *testing.T, kind string) func([]byte) map[string]any {
	h := newHandler0(t, kind)
	return func(raw []byte) map[string]any {
		mark := vt.EnvMark()
		ev := h(raw)
		if vt.EnvFailedSince(mark) {
			return map[string]any{"ev": "EnvFail"}
		}
		return ev
	}
}

func newHandler0(t *testing.T, kind string) func([]byte) map[string]any {
	e := &plugEnv{t: t, plugins: map[[2]int]*cpumem.Plugin{}}
	switch kind {
	case "alloc":
		e.plugin(10, -1)
		return func(raw []byte) map[string]any {
			var req struct {
				Op  string     `json:"op"`
				In  *allocIn   `json:"in"`
				Ins []*allocIn `json:"ins"`
			}
			if err := json.Unmarshal(raw, &req); err != nil {
				return map[string]any{"ev": "Crash", "kind": "badreq", "msg": err.Error()}
			}
			if req.Op == "multi" {
				return safely(req.Ins, func() map[string]any { return e.capMulti(req.Ins) })
			}
			return safely(req.In, func() map[string]any { return e.allocCase(req.In) })
		}
	case "hist":
		return newHistHandler(e)
	}
	panic("unknown worker kind " + kind)
}

// TestCpuMemAlloc drives every TLC-enumerated (node state, request) plus seeded random ones
// through the real cpumem plugin (in supervised workers, VERIF_PAR of them) and records one
// event per case.  Cases are independent, so event order across workers is irrelevant.
func TestCpuMemAlloc(t *testing.T) {
	out := vt.OpenTrace(t)
	defer out.Close()
	par := vt.EnvInt("VERIF_PAR", 8)
	ch := make(chan *allocIn, 1024)
	var wg sync.WaitGroup
	var n, crashes, restarts int64
	for w := 0; w < par; w++ {
		wg.Add(1)
		go func() {
			defer wg.Done()
			sup := &supervisor{kind: "alloc", deadline: 10 * time.Second}
			defer sup.close()
			recent := []*allocIn{}
			cnt := 0
			for in := range ch {
				ev, fail := sup.run(t, map[string]any{"op": "case", "in": in})
				if fail != "" {
					ev = map[string]any{"ev": "Crash", "kind": fail, "in": in, "msg": ""}
				}
				if ev["ev"] == "EnvFail" {
					vt.NoteEnvDrop()
					continue
				}
				if ev["ev"] == "Crash" {
					atomic.AddInt64(&crashes, 1)
				}
				out.Emit(ev)
				atomic.AddInt64(&n, 1)
				cnt++
				recent = append(recent, in)
				if len(recent) == 3 {
					// same request against three different node states at once (same B / max-share)
					ins := []*allocIn{}
					for _, r := range recent {
						x := *r
						x.MS, x.Bind, x.Cpu, x.Sub, x.MemReq = recent[0].MS, recent[0].Bind, recent[0].Cpu, recent[0].Sub, recent[0].MemReq
						if x.B != recent[0].B {
							continue
						}
						ins = append(ins, &x)
					}
					recent = recent[:0]
					if len(ins) >= 2 && cnt%2 == 0 {
						ev, fail := sup.run(t, map[string]any{"op": "multi", "ins": ins})
						if fail != "" {
							ev = map[string]any{"ev": "Crash", "kind": fail, "in": ins[0], "msg": "multi"}
						}
						if ev["ev"] == "EnvFail" {
							vt.NoteEnvDrop()
							continue
						}
						out.Emit(ev)
					}
				}
			}
			atomic.AddInt64(&restarts, int64(sup.restarts))
		}()
	}
	vt.EachInput(t, func(raw []byte) {
		var in allocIn
		vt.MustUnmarshal(t, raw, &in)
		ch <- &in
	})
	rng := rand.New(rand.NewSource(vt.Seed()))
	for i := 0; i < vt.EnvInt("VERIF_RANDOM", 0); i++ {
		ch <- randAlloc(rng)
	}
	close(ch)
	wg.Wait()
	t.Logf("cpumem alloc cases: %d, crash events: %d, worker restarts: %d", n, crashes, restarts)
}
