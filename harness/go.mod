module verif/harness

go 1.20

require github.com/projecteru2/core v0.0.0

require (
	github.com/BurntSushi/toml v1.2.1 // indirect
	github.com/alphadose/haxmap v1.2.0 // indirect
	github.com/cockroachdb/errors v1.9.1 // indirect
	github.com/cockroachdb/logtags v0.0.0-20230118201751-21c54148d20b // indirect
	github.com/cockroachdb/redact v1.1.3 // indirect
	github.com/docker/go-connections v0.4.0 // indirect
	github.com/docker/go-units v0.5.0 // indirect
	github.com/getsentry/sentry-go v0.20.0 // indirect
	github.com/gogo/protobuf v1.3.2 // indirect
	github.com/golang/protobuf v1.5.4 // indirect
	github.com/jinzhu/configor v1.2.1 // indirect
	github.com/kr/pretty v0.3.1 // indirect
	github.com/kr/text v0.2.0 // indirect
	github.com/mattn/go-colorable v0.1.13 // indirect
	github.com/mattn/go-isatty v0.0.18 // indirect
	github.com/mitchellh/mapstructure v1.5.0 // indirect
	github.com/panjf2000/ants/v2 v2.7.3 // indirect
	github.com/pkg/errors v0.9.1 // indirect
	github.com/rogpeppe/go-internal v1.11.0 // indirect
	github.com/rs/zerolog v1.29.1 // indirect
	golang.org/x/exp v0.0.0-20230425010034-47ecfdc1ba53 // indirect
	golang.org/x/sys v0.15.0 // indirect
	golang.org/x/text v0.14.0 // indirect
	google.golang.org/grpc v1.60.1 // indirect
	google.golang.org/protobuf v1.33.0 // indirect
	gopkg.in/natefinch/lumberjack.v2 v2.2.1 // indirect
	gopkg.in/yaml.v2 v2.4.0 // indirect
)

replace github.com/projecteru2/core => /repo
