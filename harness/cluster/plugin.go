package cluster

// Plugin-level gating: the resource manager the Calcium uses is a real cobalt.Manager whose one
// plugin is the real cpumem plugin behind a decorator, so that every PLUGIN call (not the
// manager call as a whole) is a fault / crash position: a manager operation such as Alloc or
// Realloc can then fail half-way (calculate succeeded, usage write failed), which exercises the
// manager's own compensations as well as calcium's.

import (
	"context"

	enginetypes "github.com/projecteru2/core/engine/types"
	"github.com/projecteru2/core/resource/plugins"
	plugintypes "github.com/projecteru2/core/resource/plugins/types"
)

type pluginW struct {
	plugins.Plugin
	e *Env
}

func (p *pluginW) do(ctx context.Context, method, node string, f func() error) error {
	return p.e.G.Do(ctx, "plugin", method, Event{"node": node}, false, f)
}

func (p *pluginW) CalculateDeploy(ctx context.Context, node string, n int, r plugintypes.WorkloadResourceRequest) (resp *plugintypes.CalculateDeployResponse, err error) {
	err = p.do(ctx, "CalculateDeploy", node, func() error { resp, err = p.Plugin.CalculateDeploy(ctx, node, n, r); return err })
	return
}
func (p *pluginW) CalculateRealloc(ctx context.Context, node string, w plugintypes.WorkloadResource, r plugintypes.WorkloadResourceRequest) (resp *plugintypes.CalculateReallocResponse, err error) {
	err = p.do(ctx, "CalculateRealloc", node, func() error { resp, err = p.Plugin.CalculateRealloc(ctx, node, w, r); return err })
	return
}
func (p *pluginW) CalculateRemap(ctx context.Context, node string, ws map[string]plugintypes.WorkloadResource) (*plugintypes.CalculateRemapResponse, error) {
	p.e.G.Pass() // remap is a detached, idempotent follow-up: not a fault position
	return p.Plugin.CalculateRemap(ctx, node, ws)
}
func (p *pluginW) AddNode(ctx context.Context, node string, r plugintypes.NodeResourceRequest, info *enginetypes.Info) (resp *plugintypes.AddNodeResponse, err error) {
	err = p.do(ctx, "AddNode", node, func() error { resp, err = p.Plugin.AddNode(ctx, node, r, info); return err })
	return
}
func (p *pluginW) RemoveNode(ctx context.Context, node string) (resp *plugintypes.RemoveNodeResponse, err error) {
	err = p.do(ctx, "RemoveNode", node, func() error { resp, err = p.Plugin.RemoveNode(ctx, node); return err })
	return
}
func (p *pluginW) GetNodesDeployCapacity(ctx context.Context, nodes []string, r plugintypes.WorkloadResourceRequest) (resp *plugintypes.GetNodesDeployCapacityResponse, err error) {
	err = p.do(ctx, "GetNodesDeployCapacity", "", func() error { resp, err = p.Plugin.GetNodesDeployCapacity(ctx, nodes, r); return err })
	return
}
func (p *pluginW) SetNodeResourceCapacity(ctx context.Context, node string, nr plugintypes.NodeResource, nrr plugintypes.NodeResourceRequest, delta, incr bool) (resp *plugintypes.SetNodeResourceCapacityResponse, err error) {
	err = p.do(ctx, "SetNodeResourceCapacity", node, func() error {
		resp, err = p.Plugin.SetNodeResourceCapacity(ctx, node, nr, nrr, delta, incr)
		return err
	})
	return
}
func (p *pluginW) GetNodeResourceInfo(ctx context.Context, node string, ws []plugintypes.WorkloadResource) (resp *plugintypes.GetNodeResourceInfoResponse, err error) {
	err = p.do(ctx, "GetNodeResourceInfo", node, func() error { resp, err = p.Plugin.GetNodeResourceInfo(ctx, node, ws); return err })
	return
}
func (p *pluginW) SetNodeResourceInfo(ctx context.Context, node string, c, u plugintypes.NodeResource) (resp *plugintypes.SetNodeResourceInfoResponse, err error) {
	err = p.do(ctx, "SetNodeResourceInfo", node, func() error { resp, err = p.Plugin.SetNodeResourceInfo(ctx, node, c, u); return err })
	return
}
func (p *pluginW) SetNodeResourceUsage(ctx context.Context, node string, nr plugintypes.NodeResource, nrr plugintypes.NodeResourceRequest, ws []plugintypes.WorkloadResource, delta, incr bool) (resp *plugintypes.SetNodeResourceUsageResponse, err error) {
	err = p.do(ctx, "SetNodeResourceUsage", node, func() error {
		resp, err = p.Plugin.SetNodeResourceUsage(ctx, node, nr, nrr, ws, delta, incr)
		return err
	})
	return
}
func (p *pluginW) FixNodeResource(ctx context.Context, node string, ws []plugintypes.WorkloadResource) (resp *plugintypes.GetNodeResourceInfoResponse, err error) {
	err = p.do(ctx, "FixNodeResource", node, func() error { resp, err = p.Plugin.FixNodeResource(ctx, node, ws); return err })
	return
}
