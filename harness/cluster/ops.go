package cluster

// Scenario = a pre-state (pods, nodes, workloads built fault-free through the API) + one API
// operation executed with a fault / crash plan. The executor logs Call / Msg / Return events.

import (
	"context"
	"fmt"
	"sort"
	"strconv"
	"strings"
	"time"

	resourcetypes "github.com/projecteru2/core/resource/types"
	coretypes "github.com/projecteru2/core/types"
)

type NodeSpec struct {
	Name string `json:"name"`
	Pod  string `json:"pod"`
	Kind string `json:"kind"` // plain2 | plain4 | numa4
	Down bool   `json:"down"` // marked down (bypass) after it was added
}

type WlSpec struct {
	Node string `json:"node"`
	Req  string `json:"req"`
	App  string `json:"app"`
}

type OpSpec struct {
	Kind     string   `json:"kind"`
	Strategy string   `json:"strategy"`
	Count    int      `json:"count"`
	Limit    int      `json:"limit"`
	Nodes    []string `json:"nodes"` // include list (create) / single node (node ops: first entry)
	Pod      string   `json:"pod"`
	Req      string   `json:"req"`
	Targets  []int    `json:"targets"` // indices into the pre-state workloads
	Force    bool     `json:"force"`
	Delta    string   `json:"delta"`
	App      string   `json:"app"`
	Stdin    bool     `json:"stdin"`
}

type Scenario struct {
	Nodes []NodeSpec `json:"nodes"`
	Wls   []WlSpec   `json:"wls"`
	Op    OpSpec     `json:"op"`
}

func nodeResources(kind string) (resourcetypes.Resources, [2]int) {
	switch kind {
	case "plain2":
		return resourcetypes.Resources{"cpumem": resourcetypes.RawParams{"cpu": 2, "memory": 4}}, [2]int{2, 0}
	case "plain4":
		return resourcetypes.Resources{"cpumem": resourcetypes.RawParams{"cpu": 4, "memory": 6}}, [2]int{4, 0}
	case "numa4":
		return resourcetypes.Resources{"cpumem": resourcetypes.RawParams{"cpu": 4, "memory": 4, "numa-cpu": []string{"0,1", "2,3"}, "numa-memory": []string{"2", "2"}}}, [2]int{4, 2}
	}
	panic("node kind " + kind)
}

func request(kind string) resourcetypes.Resources {
	var bind bool
	var cpu float64
	var mem int64
	switch kind {
	case "u":
		bind, cpu, mem = false, 0.5, 1
	case "b":
		bind, cpu, mem = true, 1.0, 1
	case "h":
		bind, cpu, mem = true, 0.5, 1
	case "m":
		bind, cpu, mem = false, 0, 2
	case "big":
		bind, cpu, mem = true, 3.0, 1
	default:
		panic("request kind " + kind)
	}
	return resourcetypes.Resources{"cpumem": resourcetypes.RawParams{"cpu-bind": bind, "cpu-request": cpu, "cpu-limit": cpu, "memory-request": mem, "memory-limit": mem}}
}

func reallocDelta(kind string) resourcetypes.Resources {
	p := resourcetypes.RawParams{"keep-cpu-bind": true, "cpu-request": 0.0, "cpu-limit": 0.0, "memory-request": int64(0), "memory-limit": int64(0)}
	switch kind {
	case "cpu+":
		p["cpu-request"], p["cpu-limit"] = 0.5, 0.5
	case "cpu-":
		p["cpu-request"], p["cpu-limit"] = -0.5, -0.5
	case "mem+":
		p["memory-request"], p["memory-limit"] = int64(1), int64(1)
	case "mem++": // one more than what is free on a 4-unit node that holds this 1-unit workload only: fits only if the workload's own share is counted as free
		p["memory-request"], p["memory-limit"] = int64(4), int64(4)
	case "mem-":
		p["memory-request"], p["memory-limit"] = int64(-1), int64(-1)
	case "keep":
	case "unbind":
		p["keep-cpu-bind"], p["cpu-bind"] = false, false
	case "bind":
		p["keep-cpu-bind"], p["cpu-bind"] = false, true
	case "huge":
		p["memory-request"], p["memory-limit"] = int64(100), int64(100)
	default:
		panic("realloc kind " + kind)
	}
	return resourcetypes.Resources{"cpumem": p}
}

// Built is the pre-state as built: node dimensions and the ids of the pre-existing workloads.
type Built struct {
	Dims map[string][2]int
	IDs  []string
	Pods []string
}

func (e *Env) deployOpts(app, pod string, includes []string, strategy string, count, limit int, req string) *coretypes.DeployOptions {
	return &coretypes.DeployOptions{
		Name: app, Entrypoint: &coretypes.Entrypoint{Name: "e"}, Podname: pod,
		NodeFilter: &coretypes.NodeFilter{Podname: pod, Includes: includes}, Image: "img", Count: count,
		DeployStrategy: strategy, NodesLimit: limit, Resources: request(req), IgnorePull: true, Labels: map[string]string{},
	}
}

// Build creates the pre-state fault-free. It fails the test if the pre-state cannot be built.
func (e *Env) Build(sc *Scenario) (*Built, error) {
	ctx := Op("setup")
	b := &Built{Dims: map[string][2]int{}}
	seen := map[string]bool{}
	for _, n := range sc.Nodes {
		if !seen[n.Pod] {
			seen[n.Pod] = true
			if _, err := e.Cal.AddPod(ctx, n.Pod, ""); err != nil {
				return nil, fmt.Errorf("setup AddPod: %w", err)
			}
			b.Pods = append(b.Pods, n.Pod)
		}
		res, dim := nodeResources(n.Kind)
		if _, err := e.Cal.AddNode(ctx, &coretypes.AddNodeOptions{Nodename: n.Name, Endpoint: "mock://" + n.Name, Podname: n.Pod, Resources: res, Labels: map[string]string{}}); err != nil {
			return nil, fmt.Errorf("setup AddNode: %w", err)
		}
		b.Dims[n.Name] = dim
		if n.Down {
			if _, err := e.Cal.SetNode(ctx, &coretypes.SetNodeOptions{Nodename: n.Name, Bypass: coretypes.TriTrue}); err != nil {
				return nil, fmt.Errorf("setup SetNode(bypass): %w", err)
			}
		}
	}
	for _, w := range sc.Wls {
		pod := ""
		for _, n := range sc.Nodes {
			if n.Name == w.Node {
				pod = n.Pod
			}
		}
		ch, err := e.Cal.CreateWorkload(ctx, e.deployOpts(w.App, pod, []string{w.Node}, "AUTO", 1, 0, w.Req))
		if err != nil {
			return nil, fmt.Errorf("setup CreateWorkload: %w", err)
		}
		id := ""
		for m := range ch {
			if m.Error != nil {
				return nil, fmt.Errorf("setup CreateWorkload message: %w", m.Error)
			}
			id = m.WorkloadID
		}
		b.IDs = append(b.IDs, id)
	}
	if !e.Quiesce(10 * time.Second) {
		return nil, fmt.Errorf("setup did not settle")
	}
	return b, nil
}

func (sc *Scenario) podOf(node string) string {
	for _, n := range sc.Nodes {
		if n.Name == node {
			return n.Pod
		}
	}
	return "p1"
}

func errText(err error) string {
	if err == nil {
		return ""
	}
	s := err.Error()
	if len(s) > 160 {
		s = s[:160]
	}
	return s
}

// Exec runs the scenario's operation under the gate's current plan and returns the op's events
// (Call, Msg*, Return). hang = the op did not return within the watchdog.
func (e *Env) Exec(sc *Scenario, b *Built, opID string, watchdog time.Duration) []Event {
	ctx, cancelOp := context.WithCancel(Op(opID))
	e.G.CancelOp = cancelOp
	op := sc.Op
	evs := []Event{{"ev": "Call", "op": opID, "kind": op.Kind, "spec": op}}
	done := make(chan []Event, 1)
	ids := []string{}
	for _, t := range op.Targets {
		if t < len(b.IDs) {
			ids = append(ids, b.IDs[t])
		}
	}
	go func() {
		out := []Event{}
		ret := Event{"ev": "Return", "op": opID, "kind": op.Kind}
		fail := func(err error) { ret["class"], ret["err"] = class2(err), errText(err) }
		switch op.Kind {
		case "create":
			pod := op.Pod
			if pod == "" {
				pod = "p1"
			}
			ch, err := e.Cal.CreateWorkload(ctx, e.deployOpts(op.App, pod, op.Nodes, op.Strategy, op.Count, op.Limit, op.Req))
			fail(err)
			if err == nil {
				nok, nerr := 0, 0
				for m := range ch {
					me := Event{"ev": "Msg", "op": opID, "kind": "create", "id": m.WorkloadID, "node": m.Nodename, "class": class2(m.Error), "err": errText(m.Error)}
					if m.Error == nil {
						nok++
						me["res"] = projWl(m.Resources, b.Dims[m.Nodename][0], b.Dims[m.Nodename][1], e.Cfg.Scheduler.ShareBase)
					} else {
						nerr++
					}
					out = append(out, me)
				}
				ret["closed"], ret["nok"], ret["nerr"] = true, nok, nerr
			}
		case "remove":
			ch, err := e.Cal.RemoveWorkload(ctx, ids, op.Force)
			fail(err)
			if err == nil {
				for m := range ch {
					out = append(out, Event{"ev": "Msg", "op": opID, "kind": "remove", "id": m.WorkloadID, "class": map[bool]string{true: "ok", false: "err"}[m.Success]})
				}
				ret["closed"] = true
			}
		case "dissociate":
			ch, err := e.Cal.DissociateWorkload(ctx, ids)
			fail(err)
			if err == nil {
				for m := range ch {
					out = append(out, Event{"ev": "Msg", "op": opID, "kind": "dissociate", "id": m.WorkloadID, "class": class2(m.Error), "err": errText(m.Error)})
				}
				ret["closed"] = true
			}
		case "realloc":
			err := e.Cal.ReallocResource(ctx, &coretypes.ReallocOptions{ID: ids[0], Resources: reallocDelta(op.Delta)})
			fail(err)
			out = append(out, Event{"ev": "Msg", "op": opID, "kind": "realloc", "id": ids[0], "class": class2(err), "err": errText(err)})
		case "replace":
			pod := op.Pod
			if pod == "" {
				pod = "p1"
			}
			ro := &coretypes.ReplaceOptions{DeployOptions: *e.deployOpts(op.App, pod, nil, "AUTO", 1, 0, "u"), IDs: ids}
			ch, err := e.Cal.ReplaceWorkload(ctx, ro)
			fail(err)
			if err == nil {
				for m := range ch {
					me := Event{"ev": "Msg", "op": opID, "kind": "replace", "class": class2(m.Error), "err": errText(m.Error), "id": "", "newid": ""}
					if m.Remove != nil {
						me["id"] = m.Remove.WorkloadID
					}
					if m.Create != nil {
						me["newid"] = m.Create.WorkloadID
					}
					out = append(out, me)
				}
				ret["closed"] = true
			}
		case "lambda":
			e.Eng.mu.Lock()
			e.Eng.B = Behaviour{Output: "line one\nline two\n", LogsErr: op.Delta == "logserr", WaitErr: op.Delta == "waiterr", AttachErr: op.Delta == "attacherr"}
			if op.Delta == "exit3" {
				e.Eng.B.ExitCode = 3
			}
			e.Eng.mu.Unlock()
			opts := e.deployOpts(op.App, "p1", op.Nodes, "AUTO", op.Count, 0, op.Req)
			opts.OpenStdin = op.Stdin
			inCh := make(chan []byte)
			close(inCh)
			ids, ch, err := e.Cal.RunAndWait(ctx, opts, inCh)
			fail(err)
			ret["ids"] = ids
			if err == nil {
				for m := range ch {
					typ := "stdout"
					switch m.StdStreamType {
					case coretypes.EruError:
						typ = "error"
					case coretypes.Stderr:
						typ = "stderr"
					}
					data := string(m.Data)
					code := -1
					if strings.HasPrefix(data, "[exitcode] ") {
						if c, err := strconv.Atoi(strings.TrimPrefix(data, "[exitcode] ")); err == nil {
							code = c
						}
					}
					if len(data) > 60 {
						data = data[:60]
					}
					out = append(out, Event{"ev": "Msg", "op": opID, "kind": "lambda", "id": m.WorkloadID, "stream": typ, "exit": code >= 0, "code": code, "class": "ok", "data": data})
				}
				ret["closed"] = true
			}
		case "copy":
			// delta: ok (two files of every target) | missingpath (one of them does not exist) | missingid (one more target that is not a workload)
			targets := map[string][]string{}
			npairs := 0
			for _, id := range ids {
				targets[id] = []string{"/f1", "/f2"}
				if op.Delta == "missingpath" {
					targets[id] = []string{"/f1", "/missing/f"}
				}
				npairs += 2
			}
			if op.Delta == "missingid" {
				targets["0000000000000000000000000000000000000000000000000000000000000000"] = []string{"/f1"}
				npairs++
			}
			ret["npairs"] = npairs
			ch, err := e.Cal.Copy(ctx, &coretypes.CopyOptions{Targets: targets})
			fail(err)
			if err == nil {
				for m := range ch {
					out = append(out, Event{"ev": "Msg", "op": opID, "kind": "copy", "id": m.ID, "path": m.Path, "class": class2(m.Error), "err": errText(m.Error),
						"content": string(m.Content), "known": contains(ids, m.ID)})
				}
				ret["closed"] = true
			}
		case "execute":
			// delta: ok | exit3 | execerr (the engine refuses) | codeerr (the exit code cannot be read)
			e.Eng.mu.Lock()
			e.Eng.B = Behaviour{Output: "line one\nline two\n", ExecErr: op.Delta == "execerr", CodeErr: op.Delta == "codeerr"}
			if op.Delta == "exit3" {
				e.Eng.B.ExitCode = 3
			}
			e.Eng.mu.Unlock()
			id := ""
			if len(ids) > 0 {
				id = ids[0]
			}
			ch := e.Cal.ExecuteWorkload(ctx, &coretypes.ExecuteWorkloadOptions{WorkloadID: id, Commands: []string{"true"}}, nil)
			fail(nil)
			for m := range ch {
				data := string(m.Data)
				code := -1
				if strings.HasPrefix(data, "[exitcode] ") {
					if c, err := strconv.Atoi(strings.TrimPrefix(data, "[exitcode] ")); err == nil {
						code = c
					}
				}
				if len(data) > 60 {
					data = data[:60]
				}
				out = append(out, Event{"ev": "Msg", "op": opID, "kind": "execute", "id": m.WorkloadID, "exit": code >= 0, "code": code, "class": "ok", "data": data})
			}
			ret["closed"] = true
		case "control":
			ch, err := e.Cal.ControlWorkload(ctx, ids, op.Delta, op.Force) // delta: stop | start | restart | suspend | resume
			fail(err)
			if err == nil {
				for m := range ch {
					out = append(out, Event{"ev": "Msg", "op": opID, "kind": "control", "id": m.WorkloadID, "class": class2(m.Error), "err": errText(m.Error)})
				}
				ret["closed"] = true
			}
		case "setnode":
			var res resourcetypes.Resources
			switch op.Delta {
			case "mem+":
				res = resourcetypes.Resources{"cpumem": resourcetypes.RawParams{"memory": 2}}
			case "cpu+":
				res = resourcetypes.Resources{"cpumem": resourcetypes.RawParams{"cpu": 1}}
			case "mem-":
				res = resourcetypes.Resources{"cpumem": resourcetypes.RawParams{"memory": -1}}
			case "numa+": // one more core (number 4), placed on NUMA node 0 (the node must have the numa4 layout)
				res = resourcetypes.Resources{"cpumem": resourcetypes.RawParams{"cpu": fmt.Sprintf("4:%d", e.Cfg.Scheduler.ShareBase), "numa-cpu": []string{"0,1,4", "2,3"}}}
			}
			_, err := e.Cal.SetNode(ctx, &coretypes.SetNodeOptions{Nodename: op.Nodes[0], Resources: res, Delta: true, Labels: map[string]string{"l": "v"}})
			fail(err)
		case "addnode":
			res, dim := nodeResources("plain2")
			if _, ok := b.Dims[op.Nodes[0]]; !ok {
				b.Dims[op.Nodes[0]] = dim
			}
			_, err := e.Cal.AddNode(ctx, &coretypes.AddNodeOptions{Nodename: op.Nodes[0], Endpoint: "mock://" + op.Nodes[0], Podname: op.Pod, Resources: res, Labels: map[string]string{}})
			fail(err)
		case "removenode":
			fail(e.Cal.RemoveNode(ctx, op.Nodes[0]))
		case "addpod":
			_, err := e.Cal.AddPod(ctx, op.Pod, "")
			fail(err)
		case "removepod":
			fail(e.Cal.RemovePod(ctx, op.Pod))
		case "capacity":
			pod := op.Pod
			if pod == "" {
				pod = "p1"
			}
			cm, err := e.Cal.CalculateCapacity(ctx, e.deployOpts(op.App, pod, op.Nodes, op.Strategy, op.Count, op.Limit, op.Req))
			fail(err)
			percap, total := []Event{}, 0
			if cm != nil && err == nil {
				names := []string{}
				for n := range cm.NodeCapacities {
					names = append(names, n)
				}
				sort.Strings(names)
				for _, n := range names {
					percap = append(percap, Event{"node": n, "n": clampInt(cm.NodeCapacities[n])})
				}
				total = clampInt(cm.Total)
			}
			ret["percap"], ret["total"] = percap, total
		case "fix":
			nr, err := e.Cal.NodeResource(ctx, op.Nodes[0], true)
			fail(err)
			if err == nil {
				ret["diffs"] = len(nr.Diffs)
			}
		default:
			panic("op kind " + op.Kind)
		}
		sort.SliceStable(out, func(i, j int) bool { return false })
		out = append(out, ret)
		done <- out
	}()
	select {
	case out := <-done:
		return append(evs, out...)
	case <-time.After(watchdog):
		return append(evs, Event{"ev": "Return", "op": opID, "kind": op.Kind, "class": "hang", "err": "no return within watchdog"})
	}
}

// clampInt keeps "unlimited" capacities (MaxInt) inside what TLC's integers hold.
func clampInt(n int) int {
	if n > 1000000 {
		return 1000000
	}
	return n
}

func class2(err error) string {
	if err == nil {
		return "ok"
	}
	return "err"
}

var _ = context.Background

// AnnotateLocks adds to every lock event the class of its key (1 pod, 2 workload, 3 node
// operation) and the rank of the key among all lock keys of the run (Go's string order), and the
// same for the keys held at that moment: TLC compares numbers, not strings.
func AnnotateLocks(evs []Event) {
	keys := map[string]bool{}
	for _, ev := range evs {
		if ev["ev"] == "Ext" && ev["target"] == "lock" {
			keys[ev["key"].(string)] = true
			for _, h := range ev["held"].([]string) {
				keys[h] = true
			}
		}
	}
	sorted := []string{}
	for k := range keys {
		sorted = append(sorted, k)
	}
	sort.Strings(sorted)
	rank := map[string]int{}
	for i, k := range sorted {
		rank[k] = i + 1
	}
	cls := func(k string) int {
		switch {
		case len(k) >= 6 && k[:6] == "plock_":
			return 1
		case len(k) >= 6 && k[:6] == "clock_":
			return 2
		case len(k) >= 9 && k[:9] == "cnode_op_":
			return 3
		}
		return 0
	}
	for _, ev := range evs {
		if ev["ev"] == "Ext" && ev["target"] == "lock" {
			k := ev["key"].(string)
			ev["cls"], ev["rank"] = cls(k), rank[k]
			hc, hr := []int{}, []int{}
			for _, h := range ev["held"].([]string) {
				hc, hr = append(hc, cls(h)), append(hr, rank[h])
			}
			ev["heldcls"], ev["heldranks"] = hc, hr
		}
	}
}
