package cluster

// Driver for C27: TLC-simulated schedules of register / deregister / subscribe / unsubscribe on
// the real store service stream (embedded etcd) and the real discovery/helium dispatcher with a
// 1 s push interval. Subscribers read every message ("reader"), read slowly ("slow") or stop
// reading without cancelling ("stalled").

import (
	"context"
	"sort"
	"sync"
	"testing"
	"time"

	"github.com/google/uuid"
	"github.com/projecteru2/core/discovery/helium"
	"github.com/projecteru2/core/store"
	coretypes "github.com/projecteru2/core/types"
	"verif/harness/vt"
)

type discOp struct {
	Op string `json:"op"`
	X  string `json:"x"`
}

type subscriber struct {
	mu     sync.Mutex
	kind   string
	id     uuid.UUID
	cancel context.CancelFunc
	last   []string
	n      int
	closed bool
}

// streamSpy forwards the store's service stream to helium and notes when the STORE ends it (an etcd error such as a
// timed-out request under load): helium then has no source any more; such a run is outside the property and not judged.
type streamSpy struct {
	store.Store
	mu     sync.Mutex
	ended  bool
	ctxEnd func() bool
}

func (s *streamSpy) ServiceStatusStream(ctx context.Context) (chan []string, error) {
	src, err := s.Store.ServiceStatusStream(ctx)
	if err != nil {
		s.mu.Lock()
		s.ended = true
		s.mu.Unlock()
		return src, err
	}
	out := make(chan []string)
	go func() {
		defer close(out)
		for v := range src {
			out <- v
		}
		if ctx.Err() == nil { // not our own shutdown
			s.mu.Lock()
			s.ended = true
			s.mu.Unlock()
		}
	}()
	return out, nil
}

func kindOf(s string) string {
	switch s {
	case "s2":
		return "slow"
	case "s4":
		return "stalled"
	}
	return "reader"
}

func TestClusterDiscovery(t *testing.T) {
	out := vt.OpenTrace(t)
	defer out.Close()
	env := NewEnv(t, TempDir(t), &Gate{}, nil)
	run := 0
	jit := vt.StartJitter()
	jit.Probe(func() { _, _ = env.etcdCli().Get(context.Background(), "/verif-probe") }, 500*time.Millisecond)
	defer jit.Stop()
	vt.EachInput(t, func(raw []byte) {
		var in struct {
			Ops []discOp `json:"ops"`
		}
		vt.MustUnmarshal(t, raw, &in)
		run++
		tStart := time.Now()
		env.WipeStore()
		ctx, cancelAll := context.WithCancel(context.Background())
		spy := &streamSpy{Store: env.Raw}
		h := helium.New(ctx, coretypes.GRPCConfig{ServiceDiscoveryPushInterval: time.Second}, spy)
		time.Sleep(100 * time.Millisecond)
		unreg := map[string]func(){}
		subs := map[string]*subscriber{}
		unsubs := []Event{}
		var umu sync.Mutex
		var uwg sync.WaitGroup
		for i, op := range in.Ops {
			switch op.Op {
			case "reg":
				_, un, err := env.Raw.RegisterService(ctx, "10.0.0."+op.X[1:]+":5001", 30*time.Second)
				if err != nil {
					t.Fatalf("register: %v", err)
				}
				unreg[op.X] = un
			case "dereg":
				if un := unreg[op.X]; un != nil {
					un()
					delete(unreg, op.X)
				}
			case "sub":
				sctx, cancel := context.WithCancel(ctx)
				id, ch := h.Subscribe(sctx)
				s := &subscriber{kind: kindOf(op.X), id: id, cancel: cancel}
				subs[op.X] = s
				if s.kind != "stalled" {
					go func() {
						for m := range ch {
							addrs := append([]string{}, m.Addresses...)
							sort.Strings(addrs)
							s.mu.Lock()
							s.last, s.n = addrs, s.n+1
							s.mu.Unlock()
							if s.kind == "slow" {
								time.Sleep(300 * time.Millisecond)
							}
						}
						s.mu.Lock()
						s.closed = true
						s.mu.Unlock()
					}()
				} else {
					go func() { // reads nothing while subscribed; only notices the close after an unsubscribe
						<-sctx.Done()
						for range ch {
						}
						s.mu.Lock()
						s.closed = true
						s.mu.Unlock()
					}()
				}
			case "churn":
				// short-lived subscribers: each unsubscribes at the very moment the next one subscribes
				drain := func(ch <-chan coretypes.ServiceStatus) {
					for range ch {
					}
				}
				for k := 0; k < 6; k++ {
					actx, acancel := context.WithCancel(ctx)
					idA, chA := h.Subscribe(actx)
					go drain(chA)
					time.Sleep(2 * time.Millisecond)
					start, doneA, doneB := make(chan struct{}), make(chan struct{}), make(chan struct{})
					go func() { <-start; acancel(); h.Unsubscribe(idA); close(doneA) }()
					bctx, bcancel := context.WithCancel(ctx)
					close(start)
					idB, chB := h.Subscribe(bctx)
					go drain(chB)
					go func() { <-doneA; bcancel(); h.Unsubscribe(idB); close(doneB) }()
					select {
					case <-doneB:
					case <-time.After(3 * time.Second): // (a stalled subscriber blocks every unsubscription: the known deviation)
					}
				}
			case "unsub":
				s := subs[op.X]
				if s == nil {
					break
				}
				delete(subs, op.X)
				uwg.Add(1)
				go func(name string, s *subscriber) { // what Calcium.WatchServiceStatus does when the caller's context ends
					defer uwg.Done()
					t0 := time.Now()
					s.cancel()
					done := make(chan struct{})
					go func() { h.Unsubscribe(s.id); close(done) }()
					completed := true
					select {
					case <-done:
					case <-time.After(6 * time.Second):
						completed = false
					}
					closed := false
					for i := 0; i < 30 && !closed; i++ { // the slow reader looks at its channel every 300 ms
						time.Sleep(50 * time.Millisecond)
						s.mu.Lock()
						closed = s.closed
						s.mu.Unlock()
					}
					umu.Lock()
					unsubs = append(unsubs, Event{"s": name, "kind": s.kind, "completed": completed, "closed": closed, "ms": time.Since(t0).Milliseconds()})
					umu.Unlock()
				}(op.X, s)
			}
			// every other schedule: a subscription that follows an unsubscription comes at once, while the dispatch loop
			// is still handling the unsubscription (the two touch the subscriber registry at the same time)
			if op.Op == "unsub" && run%2 == 1 && i+1 < len(in.Ops) && in.Ops[i+1].Op == "sub" {
				continue
			}
			time.Sleep(120 * time.Millisecond)
		}
		uwg.Wait()
		time.Sleep(2600 * time.Millisecond) // one push interval (1 s) + the slow reader's lag + allowance
		final := []Event{}
		names := []string{}
		for n := range subs {
			names = append(names, n)
		}
		sort.Strings(names)
		for _, n := range names {
			s := subs[n]
			s.mu.Lock()
			final = append(final, Event{"s": n, "kind": s.kind, "last": append([]string{}, s.last...), "n": s.n})
			s.mu.Unlock()
		}
		regs := []string{}
		for a := range unreg {
			regs = append(regs, "10.0.0."+a[1:]+":5001")
		}
		sort.Strings(regs)
		sort.Slice(unsubs, func(i, j int) bool { return unsubs[i]["s"].(string) < unsubs[j]["s"].(string) })
		spy.mu.Lock()
		envfail := spy.ended
		spy.mu.Unlock()
		if jit.StarvedSince(tStart) { // the process was starved of CPU: real-time bounds mean nothing for this schedule
			envfail = true
		}
		out.Emit(Event{"ev": "Disc", "run": run, "ops": in.Ops, "subs": final, "unsubs": unsubs, "registered": regs, "envfail": envfail})
		for _, un := range unreg {
			un()
		}
		cancelAll()
		time.Sleep(50 * time.Millisecond)
	})
	t.Logf("discovery schedules: %d", run)
}
