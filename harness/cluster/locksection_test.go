package cluster

// Driver for C19 where the cluster uses it (LockSection.tla): an operation whose critical section
// holds N pod locks (its node filter names nodes of N pods) is parked inside the section, at its
// first resource-plugin call; the lease behind ONE of its locks is revoked in etcd; the context the
// parked call was given - the section's context - must be done within one keepalive interval.

import (
	"context"
	"testing"
	"time"

	coretypes "github.com/projecteru2/core/types"
	clientv3 "go.etcd.io/etcd/client/v3"
	"verif/harness/vt"
)

func TestClusterLockSection(t *testing.T) {
	out := vt.OpenTrace(t)
	defer out.Close()
	ttl := 3 * time.Second
	ConfigHook = func(c *coretypes.Config) { c.LockTimeout = ttl }
	defer func() { ConfigHook = nil }()
	g := &Gate{Free: true}
	env := NewEnv(t, TempDir(t), g, nil)
	jit := vt.StartJitter()
	jit.Probe(func() { _, _ = env.etcdCli().Get(context.Background(), "/verif-probe") }, 300*time.Millisecond)
	defer jit.Stop()
	run := 0
	all := []NodeSpec{{Name: "n1", Pod: "p1", Kind: "plain2"}, {Name: "n2", Pod: "p2", Kind: "plain2"}, {Name: "n3", Pod: "p3", Kind: "plain2"}}
	vt.EachInput(t, func(raw []byte) {
		var in struct {
			Op     string `json:"op"`
			NLocks int    `json:"nlocks"`
			Lose   int    `json:"lose"`
		}
		vt.MustUnmarshal(t, raw, &in)
		env.WipeStore()
		g.H = nil
		g.Reset(0, 0)
		g.Free = true
		b, err := env.Build(&Scenario{Nodes: all})
		if err != nil {
			t.Logf("pre-state: %v", err)
			return
		}
		run++
		t0 := time.Now()
		names := []string{}
		for _, n := range all[:in.NLocks] {
			names = append(names, n.Name)
		}
		sc := &Scenario{Nodes: all, Op: OpSpec{Kind: in.Op, Pod: "p1", App: "a", Nodes: names, Strategy: "AUTO", Count: 1, Req: "m"}}
		h := NewHolder("op", 0)
		h.atLabel = "plugin.GetNodesDeployCapacity"
		g.H = h
		done := make(chan []Event, 1)
		go func() { done <- env.Exec(sc, b, "op", 30*time.Second) }()
		ev := Event{"ev": "SectionLoss", "run": run, "op": in.Op, "nlocks": in.NLocks, "lose": in.Lose, "ttlMs": ttl.Milliseconds(), "toldMs": -1, "reached": false}
		select {
		case <-h.reached:
			ev["reached"] = true
		case <-done:
		case <-time.After(15 * time.Second):
		}
		if ev["reached"] == true {
			keys := env.Locks.keysOf("op")
			ev["held"] = keys
			ev["liveBefore"] = h.Ctx.Err() == nil
			if in.Lose <= len(keys) {
				cli := env.etcdCli()
				resp, err := cli.Get(context.Background(), "/__lock__/"+keys[in.Lose-1], clientv3.WithPrefix(), clientv3.WithSort(clientv3.SortByCreateRevision, clientv3.SortAscend))
				if err == nil && len(resp.Kvs) > 0 {
					tl := time.Now()
					_, rerr := cli.Revoke(context.Background(), clientv3.LeaseID(resp.Kvs[0].Lease))
					ev["revoked"] = rerr == nil
					select {
					case <-h.Ctx.Done():
						ev["toldMs"] = time.Since(tl).Milliseconds()
					case <-time.After(ttl + 2*time.Second):
					}
				} else {
					ev["revoked"] = false
				}
			}
			close(h.release)
			select {
			case <-done:
			case <-time.After(30 * time.Second):
			}
		}
		env.Quiesce(5 * time.Second)
		g.Take()
		ev["starved"] = jit.StarvedSince(t0)
		out.Emit(ev)
	})
	t.Logf("lock-section runs: %d", run)
}
