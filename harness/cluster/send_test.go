package cluster

// Driver for C29: TLC-enumerated transfer cases (file size x target set x engine behaviour x API
// path) through the real rpc.Vibranium handlers (Send, SendLargeFile) on a real Calcium; the fake
// engine's copy call reads / refuses / aborts per target and records what it received.

import (
	"context"
	"crypto/sha256"
	"encoding/hex"
	"fmt"
	"io"
	"sync"
	"testing"
	"time"

	"github.com/projecteru2/core/rpc"
	pb "github.com/projecteru2/core/rpc/gen"
	"google.golang.org/grpc"
	"verif/harness/vt"
)

type sendCase struct {
	Size    int    `json:"size"`
	Targets string `json:"targets"` // one | two | missing | one+missing | dup
	Behav   string `json:"behav"`   // all | refuse | abort  (of target w1)
	Path    string `json:"path"`    // send | large
}

type fakeSendStream struct {
	grpc.ServerStream
	ctx  context.Context
	mu   sync.Mutex
	msgs []*pb.SendMessage
	in   []*pb.FileOptions
	pos  int
}

func (s *fakeSendStream) Context() context.Context { return s.ctx }
func (s *fakeSendStream) Send(m *pb.SendMessage) error {
	s.mu.Lock()
	defer s.mu.Unlock()
	s.msgs = append(s.msgs, m)
	return nil
}
func (s *fakeSendStream) Recv() (*pb.FileOptions, error) {
	s.mu.Lock()
	defer s.mu.Unlock()
	if s.pos >= len(s.in) {
		return nil, io.EOF
	}
	s.pos++
	return s.in[s.pos-1], nil
}

func sum(b []byte) string { h := sha256.Sum256(b); return hex.EncodeToString(h[:8]) }

func TestClusterSend(t *testing.T) {
	out := vt.OpenTrace(t)
	defer out.Close()
	g := &Gate{}
	env := NewEnv(t, TempDir(t), g, nil)
	env.WipeStore()
	sc := &Scenario{Nodes: []NodeSpec{{Name: "n1", Pod: "p1", Kind: "plain4"}}, Wls: []WlSpec{{Node: "n1", Req: "u", App: "a"}, {Node: "n1", Req: "u", App: "a"}}}
	b, err := env.Build(sc)
	if err != nil {
		t.Fatal(err)
	}
	vib := rpc.New(env.Cal, env.Cfg, make(chan struct{}))
	w1, w2 := b.IDs[0], b.IDs[1]
	missing := "ffffffffffffffffffffffffffffffffffffffffffffffffffffffffffffffff"
	name := func(id string) string {
		switch id {
		case w1:
			return "w1"
		case w2:
			return "w2"
		case missing:
			return "zz"
		}
		return "other"
	}
	run := 0
	vt.EachInput(t, func(raw []byte) {
		var c sendCase
		vt.MustUnmarshal(t, raw, &c)
		run++
		var ids []string
		switch c.Targets {
		case "one":
			ids = []string{w1}
		case "two":
			ids = []string{w1, w2}
		case "missing":
			ids = []string{missing}
		case "one+missing":
			ids = []string{w1, missing}
		case "dup":
			ids = []string{w1, w1}
		}
		content := make([]byte, c.Size)
		for i := range content {
			content[i] = byte('a' + (i*7+run)%23)
		}
		file := fmt.Sprintf("/tmp/f%d", run)
		env.Eng.mu.Lock()
		env.Eng.B.CopyMode = map[string]string{w1: map[string]string{"all": "ok", "refuse": "fail", "abort": "partial"}[c.Behav], w2: "ok"}
		for _, id := range []string{w1, w2} {
			env.Eng.cs[id].Files = map[string][]byte{}
			env.Eng.cs[id].Meta = map[string]string{}
		}
		env.Eng.mu.Unlock()
		stream := &fakeSendStream{ctx: context.Background()}
		done := make(chan error, 1)
		go func() {
			if c.Path == "send" {
				done <- vib.Send(&pb.SendOptions{IDs: ids, Data: map[string][]byte{file: content},
					Modes: map[string]*pb.FileMode{file: {Mode: 0640}}, Owners: map[string]*pb.FileOwner{file: {Uid: 7, Gid: 8}}}, stream)
				return
			}
			for i := 0; i < len(content); i += 2048 {
				j := i + 2048
				if j > len(content) {
					j = len(content)
				}
				stream.in = append(stream.in, &pb.FileOptions{Ids: ids, Dst: file, Size: int64(len(content)), Mode: &pb.FileMode{Mode: 0640}, Owner: &pb.FileOwner{Uid: 7, Gid: 8}, Chunk: content[i:j]})
			}
			done <- vib.SendLargeFile(stream)
		}()
		class := "ok"
		select {
		case err := <-done:
			if err != nil {
				class = "err"
			}
		case <-time.After(8 * time.Second):
			class = "hang"
		}
		stream.mu.Lock()
		results := []Event{}
		for _, m := range stream.msgs {
			results = append(results, Event{"id": name(m.Id), "path": m.Path, "err": m.Error != ""})
		}
		stream.mu.Unlock()
		delivered := []Event{}
		env.Eng.mu.Lock()
		for _, id := range []string{w1, w2} {
			if data, ok := env.Eng.cs[id].Files[file]; ok {
				delivered = append(delivered, Event{"id": name(id), "len": len(data), "sum": sum(data), "meta": env.Eng.cs[id].Meta[file]})
			}
		}
		env.Eng.mu.Unlock()
		out.Emit(Event{"ev": "Send", "run": run, "case": c, "class": class, "results": results, "delivered": delivered,
			"want": Event{"len": len(content), "sum": sum(content), "meta": "7:8:416"}})
		if class == "hang" {
			// the stuck call keeps its goroutines; later cases use a fresh handler on the same cluster
			vib = rpc.New(env.Cal, env.Cfg, make(chan struct{}))
		}
	})
	t.Logf("send cases: %d", run)
}
