package cluster

// Driver for the properties under worker-pool pressure: core runs every operation's pieces as tasks of one
// bounded, non-blocking goroutine pool (config max_concurrency), and a task submitted while the pool is full is
// refused. For every scenario the operation is run on core instances whose pool has 1, 2, 3 ... workers, on a
// pre-state built by an instance with a large pool (same store, same fake engines). With too small a pool the
// operation never returns (a refused task is never waited for successfully): of those runs only the lock
// acquisitions made before it got stuck are judged. The first two
// sizes at which it does return are judged like any other run (Trace_Cluster): the refusals that remain there are
// the ones the code tolerates, and what it does instead must still keep the lock order, the bookkeeping and the
// truthfulness of the results.

import (
	"encoding/json"
	"sync"
	"testing"
	"time"

	coretypes "github.com/projecteru2/core/types"
	"verif/harness/vt"
)

func TestClusterPool(t *testing.T) {
	out := vt.OpenTrace(t)
	defer out.Close()
	g := &Gate{}
	eng := NewEngines(g)
	big := NewEnv(t, TempDir(t), g, eng)
	small := map[int]*Env{}
	envOf := func(size int) *Env {
		if e, ok := small[size]; ok {
			return e
		}
		ConfigHook = func(c *coretypes.Config) { c.MaxConcurrency = size }
		defer func() { ConfigHook = nil }()
		e := NewEnv(t, TempDir(t), g, eng)
		time.Sleep(50 * time.Millisecond) // the start-up task (metrics) leaves the pool
		small[size] = e
		return e
	}
	run, hangs := 0, 0
	vt.EachInput(t, func(raw []byte) {
		var in scenIn
		if err := json.Unmarshal(raw, &in); err != nil {
			t.Fatalf("bad input: %v", err)
		}
		judged := 0
		for size := 1; size <= 8 && judged < 2; size++ {
			big.WipeStore()
			g.Reset(0, 0)
			g.obs = nil
			b, err := big.Build(&in.Scenario)
			if err != nil {
				t.Logf("scenario skipped: %v", err)
				return
			}
			env := envOf(size)
			pre := big.Snapshot(b.Dims)
			pre["when"] = "pre"
			g.Reset(0, 0)
			g.Free = true // an operation that hangs must not hang inside the gate
			opEvs := env.Exec(&in.Scenario, b, "op", 4*time.Second)
			g.Free = false
			if opEvs[len(opEvs)-1]["class"] == "hang" {
				// too small a pool for this operation: whatever it holds is what a dead instance would hold
				// (the lock acquisitions it made before it got stuck are real ones: they are judged, its state is not)
				hangs++
				run++
				evs := []Event{pre, opEvs[0]}
				evs = append(evs, g.Take()...)
				AnnotateLocks(evs)
				out.Emit(Event{"ev": "Run", "run": run, "mode": "pool-stuck", "pool": size, "store": StoreName(), "failAt": 0, "crashAt": 0, "scenario": in.Scenario, "ids": b.IDs})
				for _, ev := range evs {
					out.Emit(ev)
				}
				env.Locks.ReleaseAll()
				continue
			}
			env.Quiesce(5 * time.Second)
			big.Quiesce(5 * time.Second)
			run++
			judged++
			evs := []Event{pre, opEvs[0]}
			evs = append(evs, g.Take()...)
			evs = append(evs, opEvs[1:]...)
			post := big.Snapshot(b.Dims)
			post["when"] = "post"
			evs = append(evs, post)
			AnnotateLocks(evs)
			out.Emit(Event{"ev": "Run", "run": run, "mode": "pool", "pool": size, "store": StoreName(), "failAt": 0, "crashAt": 0, "scenario": in.Scenario, "ids": b.IDs})
			for _, ev := range evs {
				out.Emit(ev)
			}
		}
		// saturated pool: every worker is held by a command that keeps running in a workload (ExecuteWorkload holds a
		// worker for as long as the command runs); operations that do not need the pool themselves must go through, and
		// whatever they would have handed to the pool (the remap) is refused
		switch in.Op.Kind {
		case "realloc", "setnode", "addnode", "removenode", "fix", "capacity":
		default:
			return
		}
		big.WipeStore()
		g.Reset(0, 0)
		b, err := big.Build(&in.Scenario)
		if err != nil || len(b.IDs) == 0 {
			return
		}
		const size = 2
		env := envOf(size)
		pre := big.Snapshot(b.Dims)
		pre["when"] = "pre"
		g.Reset(0, 0)
		g.Free = true
		blk := make(chan struct{})
		eng.mu.Lock()
		eng.B = Behaviour{Output: "x\n", ExecBlock: blk}
		eng.mu.Unlock()
		var bw sync.WaitGroup
		for i := 0; i < size; i++ {
			bw.Add(1)
			go func() {
				defer bw.Done()
				ch := env.Cal.ExecuteWorkload(Op("blocker"), &coretypes.ExecuteWorkloadOptions{WorkloadID: b.IDs[len(b.IDs)-1], Commands: []string{"sleep"}}, nil)
				for range ch {
				}
			}()
		}
		time.Sleep(150 * time.Millisecond) // both commands are running: the pool is full
		opEvs := env.Exec(&in.Scenario, b, "op", 6*time.Second)
		env.Quiesce(3 * time.Second)
		stuck := opEvs[len(opEvs)-1]["class"] == "hang"
		eng.mu.Lock()
		eng.B = Behaviour{}
		eng.mu.Unlock()
		close(blk)
		bdone := make(chan struct{})
		go func() { bw.Wait(); close(bdone) }()
		select {
		case <-bdone:
		case <-time.After(3 * time.Second): // a blocker whose own task the pool refused never sees its stream closed
		}
		env.Quiesce(3 * time.Second)
		big.Quiesce(3 * time.Second)
		g.Free = false
		run++
		evs := []Event{pre, opEvs[0]}
		evs = append(evs, g.Take()...)
		mode := "pool"
		if stuck {
			mode = "pool-stuck"
			env.Locks.ReleaseAll()
		} else {
			evs = append(evs, opEvs[1:]...)
			post := big.Snapshot(b.Dims)
			post["when"] = "post"
			evs = append(evs, post)
		}
		AnnotateLocks(evs)
		out.Emit(Event{"ev": "Run", "run": run, "mode": mode, "pool": size, "saturated": true, "store": StoreName(), "failAt": 0, "crashAt": 0, "scenario": in.Scenario, "ids": b.IDs})
		for _, ev := range evs {
			out.Emit(ev)
		}
	})
	t.Logf("pool-pressure runs: %d judged, %d with too small a pool", run, hangs)
}
