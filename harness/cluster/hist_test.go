package cluster

// Driver for histories (C10, C11, C22 composed): TLC-simulated sequences of API calls, each
// optionally hit by one injected failure, on a two-node cluster. Every call is emitted as one run
// (pre snapshot = the previous call's post snapshot), so Trace_Cluster judges the state after
// every call of the history.

import (
	"encoding/json"
	"testing"
	"time"

	"verif/harness/vt"
)

type histOp struct {
	OpSpec
	Fault  int  `json:"fault"`
	Cancel bool `json:"cancel"`
}

func TestClusterHistories(t *testing.T) {
	out := vt.OpenTrace(t)
	defer out.Close()
	g := &Gate{}
	env := NewEnv(t, TempDir(t), g, nil)
	run := 0
	layouts := [][]NodeSpec{
		{{Name: "n1", Pod: "p1", Kind: "plain2"}, {Name: "n2", Pod: "p1", Kind: "plain4"}},
		{{Name: "n1", Pod: "p1", Kind: "numa4"}, {Name: "n2", Pod: "p1", Kind: "plain2"}},
	}
	hno := 0
	vt.EachInput(t, func(raw []byte) {
		var in struct {
			Ops []histOp `json:"ops"`
		}
		if err := json.Unmarshal(raw, &in); err != nil {
			t.Fatal(err)
		}
		hno++
		env.WipeStore()
		g.Reset(0, 0)
		g.obs = nil
		base := &Scenario{Nodes: layouts[hno%len(layouts)]}
		b, err := env.Build(base)
		if err != nil {
			t.Logf("history skipped: %v", err)
			return
		}
		prev := env.Snapshot(b.Dims)
		for _, op := range in.Ops {
			// targets are positions in the list of workloads that exist now
			liveIDs := []string{}
			for _, n := range prev["nodes"].([]Event) {
				for _, w := range n["wls"].([]Event) {
					liveIDs = append(liveIDs, w["id"].(string))
				}
			}
			sc := &Scenario{Nodes: base.Nodes, Op: op.OpSpec}
			bb := &Built{Dims: b.Dims, IDs: liveIDs, Pods: b.Pods}
			if len(op.Targets) > 0 && op.Targets[0] >= len(liveIDs) {
				continue
			}
			run++
			if op.Cancel {
				g.Reset(0, 0)
				g.CancelAt(op.Fault)
			} else {
				g.Reset(op.Fault, 0)
			}
			hdr := Event{"ev": "Run", "run": run, "mode": "history", "store": StoreName(), "failAt": op.Fault, "cancel": op.Cancel, "crashAt": 0, "scenario": sc, "ids": liveIDs, "history": hno}
			pre := cloneEvent(prev)
			pre["when"] = "pre"
			opEvs := env.Exec(sc, bb, "op", 20*time.Second)
			env.Quiesce(10 * time.Second)
			evs := []Event{pre, opEvs[0]}
			evs = append(evs, g.Take()...)
			evs = append(evs, opEvs[1:]...)
			post := env.Snapshot(b.Dims)
			prev = cloneEvent(post)
			post["when"] = "post"
			evs = append(evs, post)
			AnnotateLocks(evs)
			out.Emit(hdr)
			env := false
			for _, ev := range evs {
				out.Emit(ev)
				env = env || ev["class"] == "envfail"
			}
			if env { // the store itself failed: the rest of the history starts from an unknown state
				break
			}
		}
	})
	t.Logf("history calls: %d in %d histories", run, hno)
}

func cloneEvent(e Event) Event {
	b, _ := json.Marshal(e)
	var m map[string]any
	_ = json.Unmarshal(b, &m)
	// restore the typed shapes the driver reads back (nodes -> wls -> id)
	out := Event{}
	for k, v := range m {
		out[k] = v
	}
	if ns, ok := m["nodes"].([]any); ok {
		nodes := []Event{}
		for _, n := range ns {
			nm := n.(map[string]any)
			wls := []Event{}
			if ws, ok := nm["wls"].([]any); ok {
				for _, w := range ws {
					wls = append(wls, w.(map[string]any))
				}
			}
			nm["wls"] = wls
			nodes = append(nodes, nm)
		}
		out["nodes"] = nodes
	}
	return out
}
