package cluster

// Driver for C10-C14: every TLC-enumerated scenario (pre-state + operation) is executed once
// fault-free (which also counts its K external calls) and then once per single-fault placement
// k = 1..K (mode "fault") or per crash placement k = 1..K+1 followed by recovery in a fresh
// core instance on the same store and WAL file (mode "crash"). One process = one worker.

import (
	"context"
	"encoding/json"
	"os"
	"testing"
	"time"

	"verif/harness/vt"
)

type scenIn struct {
	Scenario
	Mode  string `json:"mode"`  // fault | crash | once | burst | cancel (the caller gives up before call k) | timeout (call k is slower than the global timeout)
	Every int    `json:"every"` // use every n-th placement (1 = all)
}

func (e *Env) c13Observer(app string, nodes []string) func() Event {
	return func() Event {
		ctx := context.Background()
		ds, err := e.Raw.GetDeployStatus(ctx, app, "e")
		rows := []Event{}
		for _, n := range nodes {
			rec := 0
			if ws, err := e.Raw.ListNodeWorkloads(ctx, n, nil); err == nil {
				for _, w := range ws {
					if a, _, _, _ := parseName(w.Name); a == app {
						rec++
					}
				}
			}
			rows = append(rows, Event{"node": n, "ds": ds[n], "rec": rec})
		}
		return Event{"obs": rows, "obserr": err != nil}
	}
}

func scenarioNodes(sc *Scenario) []string {
	out := []string{}
	for _, n := range sc.Nodes {
		out = append(out, n.Name)
	}
	return out
}

func priorCounts(e *Env, app string, nodes []string) []Event {
	ds, _ := e.Raw.GetDeployStatus(context.Background(), app, "e")
	rows := []Event{}
	for _, n := range nodes {
		rows = append(rows, Event{"node": n, "ds": ds[n]})
	}
	return rows
}

func TestClusterFaults(t *testing.T) {
	out := vt.OpenTrace(t)
	defer out.Close()
	dir := TempDir(t)
	g := &Gate{}
	eng := NewEngines(g)
	env := NewEnv(t, dir, g, eng)
	run := 0
	emitRun := func(hdr Event, evs []Event) {
		AnnotateLocks(evs)
		out.Emit(hdr)
		for _, ev := range evs {
			out.Emit(ev)
		}
	}
	cancelAt, hangAt := 0, 0
	g.HangFor = globalTimeout() + 400*time.Millisecond
	one := func(in *scenIn, failAt, crashAt int) (k int, ok bool) {
		env.WipeStore()
		g.Reset(0, 0)
		g.obs = nil
		b, err := env.Build(&in.Scenario)

		if err != nil {
			t.Logf("scenario skipped: %v", err)
			return 0, false
		}
		run++
		hdr := Event{"ev": "Run", "run": run, "mode": in.Mode, "store": StoreName(), "failAt": failAt, "crashAt": crashAt, "cancelAt": cancelAt, "hangAt": hangAt, "scenario": in.Scenario, "ids": b.IDs}
		evs := []Event{}
		pre := env.Snapshot(b.Dims)
		pre["when"] = "pre"
		evs = append(evs, pre)
		nodes := scenarioNodes(&in.Scenario)
		if in.Op.Kind == "create" {
			evs = append(evs, Event{"ev": "Prior", "app": in.Op.App, "rows": priorCounts(env, in.Op.App, nodes)})
			g.obs = env.c13Observer(in.Op.App, nodes)
		}
		g.Reset(failAt, crashAt)
		g.CancelAt(cancelAt)
		g.HangAt(hangAt)
		if in.Mode == "burst" {
			// no serialisation, and the instances' last external call of the creation (the commit of their recovery-log
			// entry) completed at the same moment: their creation messages reach the caller back to back
			g.Free, g.Bar = true, NewBarrier("wal.Commit", in.Op.Count)
			g.Bar.After = true
			defer func() { g.Free, g.Bar = false, nil }()
		}
		if crashAt != 0 {
			crashed := make(chan struct{})
			g.onCrash = func() { close(crashed) }
			opDone := make(chan []Event, 1)
			go func() { opDone <- env.Exec(&in.Scenario, b, "op", 20*time.Second) }()
			var opEvs []Event
			select {
			case <-crashed:
			case opEvs = <-opDone: // the op finished before reaching call #crashAt
			case <-time.After(25 * time.Second):
				// neither crashed nor returned: the operation hangs before reaching call #crashAt
				opEvs = []Event{{"ev": "Call", "op": "op", "kind": in.Op.Kind, "spec": in.Op}, {"ev": "Return", "op": "op", "kind": in.Op.Kind, "class": "hang", "err": "no return within watchdog"}}
			}
			if opEvs == nil {
				// the instance is dead: release its locks (lease expiry), close its WAL file, start a new instance, recover
				time.Sleep(20 * time.Millisecond)
				env.Locks.ReleaseAll()
				_ = env.Wal.Close()
				evs = append(evs, Event{"ev": "Call", "op": "op", "kind": in.Op.Kind, "spec": in.Op})
				evs = append(evs, g.Take()...)
				g2 := &Gate{}
				eng.SetGate(g2)
				env2 := NewEnv(t, dir, g2, eng)
				env2.Cal.DisasterRecover(Op("recover"))
				settled := env2.Quiesce(20 * time.Second)
				time.Sleep(250 * time.Millisecond) // the lambda handler is detached
				env2.Quiesce(10 * time.Second)
				evs = append(evs, Event{"ev": "Recovered", "settled": settled})
				post := env2.Snapshot(b.Dims)
				post["when"] = "post"
				evs = append(evs, post)
				emitRun(hdr, evs)
				// the recovered instance becomes the working one
				env, g = env2, g2
				return crashAt, true
			}
			evs = append(evs, opEvs[0])
			evs = append(evs, g.Take()...)
			evs = append(evs, opEvs[1:]...)
			k = g.Calls()
		} else {
			opEvs := env.Exec(&in.Scenario, b, "op", 20*time.Second)
			if !env.Quiesce(20 * time.Second) {
				t.Logf("run %d did not settle", run)
			}
			k = g.Calls()
			evs = append(evs, opEvs[0])
			evs = append(evs, g.Take()...)
			evs = append(evs, opEvs[1:]...)
		}
		g.obs = nil
		post := env.Snapshot(b.Dims)
		post["when"] = "post"
		evs = append(evs, post)
		emitRun(hdr, evs)
		return k, true
	}
	vt.EachInput(t, func(raw []byte) {
		var in scenIn
		if err := json.Unmarshal(raw, &in); err != nil {
			t.Fatalf("bad input: %v", err)
		}
		if in.Every <= 0 {
			in.Every = 1
		}
		K, ok := one(&in, 0, 0)
		if !ok {
			return
		}
		if in.Mode == "once" {
			return
		}
		if in.Mode == "burst" {
			for i := 0; i < 5; i++ {
				one(&in, 0, 0)
			}
			return
		}
		for k := 1 + (vt.EnvInt("VERIF_SEED", 1) % in.Every); ; k += in.Every {
			if in.Mode == "cancel" || in.Mode == "timeout" {
				if k > K {
					break
				}
				if in.Mode == "cancel" {
					cancelAt = k
				} else {
					hangAt = k
				}
				one(&in, 0, 0)
				cancelAt, hangAt = 0, 0
				continue
			}
			if in.Mode == "crash" {
				if k > K+1 {
					break
				}
				one(&in, 0, k)
			} else {
				if k > K {
					break
				}
				one(&in, k, 0)
			}
		}
	})
	t.Logf("cluster runs: %d", run)
	_ = os.Stdout
}
