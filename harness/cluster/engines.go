package cluster

// Stateful fake engines. The store wrapper substitutes, on every node and workload it hands out,
// the engine of that node by a fakeEngine that keeps a container table (id -> node, running,
// engine params, received files) and passes every call through the gate, so engine calls are
// fault / crash positions like store and plugin calls. Calls the fake does not implement fall
// through to the repository's own mock engine.

import (
	"bytes"
	"context"
	"crypto/rand"
	"encoding/hex"
	"fmt"
	"io"
	"sort"
	"sync"
	"time"

	"github.com/projecteru2/core/engine"
	enginetypes "github.com/projecteru2/core/engine/types"
	resourcetypes "github.com/projecteru2/core/resource/types"
	coretypes "github.com/projecteru2/core/types"
)

type Container struct {
	ID      string
	Node    string
	Running bool
	Params  resourcetypes.Resources
	Files   map[string][]byte
	Meta    map[string]string // uid/gid/mode per file as text
	Lambda  bool
	Stdin   bool
}

// Behaviour of run-and-wait / copy calls, set by drivers.
type Behaviour struct {
	ExecErr, CodeErr            bool
	ExecBlock                   chan struct{} // Execute waits for it (a command that keeps running)
	LogsErr, AttachErr, WaitErr bool
	ExitCode                    int64
	Output                      string
	CopyMode                    map[string]string // container id -> "ok" | "fail" | "partial"
}

type Engines struct {
	mu   sync.Mutex
	g    *Gate
	cs   map[string]*Container
	byNd map[string]*fakeEngine
	B    Behaviour
}

func NewEngines(g *Gate) *Engines {
	return &Engines{g: g, cs: map[string]*Container{}, byNd: map[string]*fakeEngine{}}
}

func (es *Engines) Reset() {
	es.mu.Lock()
	defer es.mu.Unlock()
	es.cs = map[string]*Container{}
	es.B = Behaviour{}
}

func (es *Engines) For(node string, under engine.API) engine.API {
	es.mu.Lock()
	defer es.mu.Unlock()
	if f, ok := under.(*fakeEngine); ok {
		return f
	}
	f := es.byNd[node]
	if f == nil {
		f = &fakeEngine{API: under, es: es, node: node}
		es.byNd[node] = f
	} else if under != nil {
		f.API = under
	}
	return f
}

// Snapshot: id -> [node, running]
func (es *Engines) Snapshot() []Event {
	es.mu.Lock()
	defer es.mu.Unlock()
	ids := []string{}
	for id := range es.cs {
		ids = append(ids, id)
	}
	sort.Strings(ids)
	out := []Event{}
	for _, id := range ids {
		c := es.cs[id]
		out = append(out, Event{"id": id, "node": c.Node, "running": c.Running})
	}
	return out
}

func (es *Engines) Get(id string) *Container {
	es.mu.Lock()
	defer es.mu.Unlock()
	return es.cs[id]
}

func (es *Engines) SetGate(g *Gate) { es.mu.Lock(); es.g = g; es.mu.Unlock() }

type fakeEngine struct {
	engine.API
	es   *Engines
	node string
}

func newID() string {
	b := make([]byte, 32)
	_, _ = rand.Read(b)
	return hex.EncodeToString(b)
}

func (f *fakeEngine) do(ctx context.Context, method string, args Event, fn func() error) error {
	f.es.mu.Lock()
	g := f.es.g
	f.es.mu.Unlock()
	args["node"] = f.node
	// like the real engine clients (HTTP / gRPC), a call made under a context that is already done fails with its error
	return g.Do(ctx, "engine", method, args, false, func() error {
		if ctx != nil && ctx.Err() != nil {
			return ctx.Err()
		}
		return fn()
	})
}

func (f *fakeEngine) find(id string) (*Container, error) {
	c := f.es.cs[id]
	if c == nil || c.Node != f.node {
		return nil, fmt.Errorf("%w: %s", coretypes.ErrWorkloadNotExists, id)
	}
	return c, nil
}

func (f *fakeEngine) VirtualizationCreate(ctx context.Context, opts *enginetypes.VirtualizationCreateOptions) (r *enginetypes.VirtualizationCreated, err error) {
	err = f.do(ctx, "Create", Event{}, func() error {
		f.es.mu.Lock()
		defer f.es.mu.Unlock()
		id := newID()
		f.es.cs[id] = &Container{ID: id, Node: f.node, Params: opts.EngineParams, Files: map[string][]byte{}, Meta: map[string]string{}, Lambda: opts.Lambda, Stdin: opts.Stdin}
		r = &enginetypes.VirtualizationCreated{ID: id, Name: opts.Name, Labels: map[string]string{}}
		return nil
	})
	return
}

func (f *fakeEngine) VirtualizationStart(ctx context.Context, id string) error {
	return f.do(ctx, "Start", Event{"id": id}, func() error {
		f.es.mu.Lock()
		defer f.es.mu.Unlock()
		c, err := f.find(id)
		if err != nil {
			return err
		}
		c.Running = true
		return nil
	})
}

func (f *fakeEngine) VirtualizationStop(ctx context.Context, id string, _ time.Duration) error {
	return f.do(ctx, "Stop", Event{"id": id}, func() error {
		f.es.mu.Lock()
		defer f.es.mu.Unlock()
		c, err := f.find(id)
		if err != nil {
			return err
		}
		c.Running = false
		return nil
	})
}

func (f *fakeEngine) VirtualizationRemove(ctx context.Context, id string, _, force bool) error {
	return f.do(ctx, "Remove", Event{"id": id, "force": force}, func() error {
		f.es.mu.Lock()
		defer f.es.mu.Unlock()
		c, err := f.find(id)
		if err != nil {
			return err
		}
		if c.Running && !force {
			return fmt.Errorf("container %s is running", id)
		}
		delete(f.es.cs, id)
		return nil
	})
}

func (f *fakeEngine) VirtualizationInspect(ctx context.Context, id string) (info *enginetypes.VirtualizationInfo, err error) {
	err = f.do(ctx, "Inspect", Event{"id": id}, func() error {
		f.es.mu.Lock()
		defer f.es.mu.Unlock()
		c, err := f.find(id)
		if err != nil {
			return err
		}
		info = &enginetypes.VirtualizationInfo{ID: id, Running: c.Running, Networks: map[string]string{}, Labels: map[string]string{}}
		return nil
	})
	return
}

func (f *fakeEngine) VirtualizationUpdateResource(ctx context.Context, id string, params resourcetypes.Resources) error {
	return f.do(ctx, "UpdateResource", Event{"id": id}, func() error {
		f.es.mu.Lock()
		defer f.es.mu.Unlock()
		c, err := f.find(id)
		if err != nil {
			return err
		}
		c.Params = params
		return nil
	})
}

func (f *fakeEngine) VirtualizationCopyTo(ctx context.Context, id, target string, content []byte, uid, gid int, mode int64) error {
	return f.do(ctx, "CopyTo", Event{"id": id}, func() error {
		f.es.mu.Lock()
		defer f.es.mu.Unlock()
		c, err := f.find(id)
		if err != nil {
			return err
		}
		c.Files[target] = append([]byte{}, content...)
		c.Meta[target] = fmt.Sprintf("%d:%d:%d", uid, gid, mode)
		return nil
	})
}

// VirtualizationCopyChunkTo is NOT passed through the gate's mutex while reading (the reader is a
// pipe fed by calcium): behaviour per container from Behaviour.CopyMode.
func (f *fakeEngine) VirtualizationCopyChunkTo(ctx context.Context, id, target string, size int64, content io.Reader, uid, gid int, mode int64) error {
	f.es.mu.Lock()
	c, err := f.find(id)
	m := f.es.B.CopyMode[id]
	f.es.mu.Unlock()
	if err != nil {
		return err
	}
	switch m {
	case "fail":
		return fmt.Errorf("engine rejected the copy")
	case "partial":
		buf := make([]byte, 1500)
		_, _ = io.ReadFull(content, buf)
		return fmt.Errorf("engine aborted the copy")
	}
	data, err := io.ReadAll(content)
	if err != nil {
		return err
	}
	f.es.mu.Lock()
	c.Files[target] = append(c.Files[target], data...) // a second writer to the same file shows up as extra bytes
	c.Meta[target] = fmt.Sprintf("%d:%d:%d", uid, gid, mode)
	f.es.mu.Unlock()
	f.es.g.Emit(Event{"ev": "ChunkCopied", "id": id, "file": target, "bytes": len(data), "declared": size})
	return nil
}

func (f *fakeEngine) VirtualizationLogs(ctx context.Context, opts *enginetypes.VirtualizationLogStreamOptions) (io.ReadCloser, io.ReadCloser, error) {
	var fail bool
	var out string
	err := f.do(ctx, "Logs", Event{"id": opts.ID}, func() error {
		f.es.mu.Lock()
		defer f.es.mu.Unlock()
		fail, out = f.es.B.LogsErr, f.es.B.Output
		if _, err := f.find(opts.ID); err != nil {
			return err
		}
		if fail {
			return fmt.Errorf("logs unavailable")
		}
		return nil
	})
	if err != nil {
		return nil, nil, err
	}
	return io.NopCloser(bytes.NewBufferString(out)), io.NopCloser(bytes.NewBufferString("")), nil
}

type nopWC struct{ io.Writer }

func (nopWC) Close() error { return nil }

func (f *fakeEngine) VirtualizationAttach(ctx context.Context, id string, _, _ bool) (io.ReadCloser, io.ReadCloser, io.WriteCloser, error) {
	var out string
	err := f.do(ctx, "Attach", Event{"id": id}, func() error {
		f.es.mu.Lock()
		defer f.es.mu.Unlock()
		out = f.es.B.Output
		if _, err := f.find(id); err != nil {
			return err
		}
		if f.es.B.AttachErr {
			return fmt.Errorf("attach refused")
		}
		return nil
	})
	if err != nil {
		return nil, nil, nil, err
	}
	return io.NopCloser(bytes.NewBufferString(out)), io.NopCloser(bytes.NewBufferString("")), nopWC{io.Discard}, nil
}

func (f *fakeEngine) VirtualizationWait(ctx context.Context, id, _ string) (r *enginetypes.VirtualizationWaitResult, err error) {
	err = f.do(ctx, "Wait", Event{"id": id}, func() error {
		f.es.mu.Lock()
		defer f.es.mu.Unlock()
		c, err := f.find(id)
		if err != nil {
			return err
		}
		if f.es.B.WaitErr {
			return fmt.Errorf("wait failed")
		}
		c.Running = false
		r = &enginetypes.VirtualizationWaitResult{Code: f.es.B.ExitCode}
		return nil
	})
	return
}

// VirtualizationCopyFrom: every path has the content "content-of-<path>", except paths below /missing
func (f *fakeEngine) VirtualizationCopyFrom(ctx context.Context, id, path string) (content []byte, uid, gid int, mode int64, err error) {
	err = f.do(ctx, "CopyFrom", Event{"id": id, "path": path}, func() error {
		f.es.mu.Lock()
		defer f.es.mu.Unlock()
		if _, err := f.find(id); err != nil {
			return err
		}
		if len(path) >= 8 && path[:8] == "/missing" {
			return fmt.Errorf("no such file: %s", path)
		}
		content, uid, gid, mode = []byte("content-of-"+path), 1000, 1000, 0o644
		return nil
	})
	return
}

func (f *fakeEngine) Execute(ctx context.Context, id string, _ *enginetypes.ExecConfig) (execID string, stdout, stderr io.ReadCloser, stdin io.WriteCloser, err error) {
	var out string
	err = f.do(ctx, "Execute", Event{"id": id}, func() error {
		f.es.mu.Lock()
		defer f.es.mu.Unlock()
		out = f.es.B.Output
		if _, err := f.find(id); err != nil {
			return err
		}
		if f.es.B.ExecErr {
			return fmt.Errorf("exec refused")
		}
		return nil
	})
	if err != nil {
		return "", nil, nil, nil, err
	}
	f.es.mu.Lock()
	blk := f.es.B.ExecBlock
	f.es.mu.Unlock()
	if blk != nil {
		<-blk
	}
	return "exec-" + id[:8], io.NopCloser(bytes.NewBufferString(out)), io.NopCloser(bytes.NewBufferString("")), nopWC{io.Discard}, nil
}

func (f *fakeEngine) ExecResize(context.Context, string, uint, uint) error { return nil }

func (f *fakeEngine) ExecExitCode(ctx context.Context, id, _ string) (code int, err error) {
	err = f.do(ctx, "ExecExitCode", Event{"id": id}, func() error {
		f.es.mu.Lock()
		defer f.es.mu.Unlock()
		if f.es.B.CodeErr {
			return fmt.Errorf("exit code unavailable")
		}
		code = int(f.es.B.ExitCode)
		return nil
	})
	return
}

func (f *fakeEngine) VirtualizationResize(context.Context, string, uint, uint) error { return nil }
func (f *fakeEngine) VirtualizationSuspend(ctx context.Context, id string) error {
	return f.do(ctx, "Suspend", Event{"id": id}, func() error { return nil })
}
func (f *fakeEngine) VirtualizationResume(ctx context.Context, id string) error {
	return f.do(ctx, "Resume", Event{"id": id}, func() error { return nil })
}
