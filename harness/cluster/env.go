// Package cluster: conformance harness for the Cluster specification. A real calcium.Calcium
// (embedded etcd store, real cobalt manager with the cpumem plugin, real bbolt WAL) is built and
// its three collaborators are wrapped (Calcium.VerifInterpose, build tag verif) with decorators
// that pass every external call through one Gate: the gate serialises external effects, numbers
// them, injects a single failure or a crash at a chosen call, and records one event per call.
// Engines are stateful fakes substituted on every node / workload the store hands out.
package cluster

import (
	"context"
	"errors"
	"fmt"
	"os"
	"path/filepath"
	"runtime"
	"sort"
	"strconv"
	"strings"
	"sync"
	"testing"
	"time"

	"github.com/alicebob/miniredis/v2"
	"github.com/projecteru2/core/cluster/calcium"
	enginefactory "github.com/projecteru2/core/engine/factory"
	enginetypes "github.com/projecteru2/core/engine/types"
	"github.com/projecteru2/core/lock"
	"github.com/projecteru2/core/resource"
	"github.com/projecteru2/core/resource/cobalt"
	"github.com/projecteru2/core/resource/plugins/cpumem"
	plugintypes "github.com/projecteru2/core/resource/plugins/types"
	resourcetypes "github.com/projecteru2/core/resource/types"
	"github.com/projecteru2/core/store"
	"github.com/projecteru2/core/store/etcdv3"
	"github.com/projecteru2/core/store/etcdv3/embedded"
	"github.com/projecteru2/core/store/etcdv3/meta"
	coretypes "github.com/projecteru2/core/types"
	"github.com/projecteru2/core/wal"
	"go.etcd.io/etcd/api/v3/mvccpb"
	clientv3 "go.etcd.io/etcd/client/v3"
)

var ErrInjected = errors.New("verif: injected failure")

// ---------------------------------------------------------------------------------- gate

type Event = map[string]any

type Gate struct {
	mu       sync.Mutex
	n        int // eligible calls seen in this run
	failAt   int // fail eligible call #failAt (0 = none)
	cancelAt int // the caller gives up right before eligible call #cancelAt: its context is cancelled from that call on
	hangAt   int // eligible call #hangAt hangs for longer than the global timeout before it is made
	HangFor  time.Duration
	CancelOp func()
	crashAt  int  // crash before eligible call #crashAt (0 = none)
	dead     bool // instance crashed: every later call blocks for ever without effect
	onCrash  func()
	events   []Event
	seq      int
	obs      func() Event // observer run after each effect (under the gate), may be nil
	inflight int          // blocking calls (lock waits) in progress
	Free     bool         // do not serialise calls (concurrency driver): effects interleave as the code lets them
	H        *Holder      // optional hold point for one operation
	Bar      *Barrier     // optional rendezvous: the calls with one label proceed together
}

// Barrier makes the first `want` calls with the given label wait for each other (at most 2 s): the schedule in which
// the pieces of an operation that run in parallel reach that call - and everything after it - at the same moment.
type Barrier struct {
	mu    sync.Mutex
	After bool // rendezvous when the call has been performed rather than before it
	label string
	want  int
	n     int
	ch    chan struct{}
}

func NewBarrier(label string, want int) *Barrier {
	return &Barrier{label: label, want: want, ch: make(chan struct{})}
}

func (b *Barrier) Wait(label string) {
	if b == nil || label != b.label {
		return
	}
	b.mu.Lock()
	b.n++
	if b.n == b.want {
		close(b.ch)
	}
	late := b.n > b.want
	b.mu.Unlock()
	if late {
		return
	}
	select {
	case <-b.ch:
	case <-time.After(2 * time.Second):
	}
}

func (g *Gate) Reset(failAt, crashAt int) {
	g.mu.Lock()
	defer g.mu.Unlock()
	g.n, g.failAt, g.crashAt, g.dead, g.events = 0, failAt, crashAt, false, nil
	g.cancelAt, g.hangAt = 0, 0
}

// HangAt: eligible call #k is slow: it starts only after `HangFor` (longer than the operation's deadline).
func (g *Gate) HangAt(k int) {
	g.mu.Lock()
	defer g.mu.Unlock()
	g.hangAt = k
}

// CancelAt: the operation's caller gives up (its context is cancelled) right before eligible call #k.
func (g *Gate) CancelAt(k int) {
	g.mu.Lock()
	defer g.mu.Unlock()
	g.cancelAt = k
}

func (g *Gate) Calls() int { g.mu.Lock(); defer g.mu.Unlock(); return g.n }

func (g *Gate) Dead() bool { g.mu.Lock(); defer g.mu.Unlock(); return g.dead }

func (g *Gate) emitLocked(ev Event) {
	g.seq++
	ev["gseq"] = g.seq
	g.events = append(g.events, ev)
}

func (g *Gate) Emit(ev Event) {
	g.mu.Lock()
	defer g.mu.Unlock()
	g.emitLocked(ev)
}

// Pass: a call that is neither a fault nor a crash position, but that a crashed instance must not
// make either.
func (g *Gate) Pass() {
	g.mu.Lock()
	dead := g.dead
	g.mu.Unlock()
	if dead {
		select {}
	}
}

func (g *Gate) Take() []Event {
	g.mu.Lock()
	defer g.mu.Unlock()
	evs := g.events
	g.events = nil
	return evs
}

func opOf(ctx context.Context) string {
	if ctx == nil {
		return ""
	}
	if v, ok := ctx.Value(coretypes.TracingID).(string); ok {
		return v
	}
	return ""
}

func class(err error) string {
	switch {
	case err == nil:
		return "ok"
	case errors.Is(err, ErrInjected):
		return "injected"
	case strings.Contains(err.Error(), "etcdserver:") || strings.Contains(err.Error(), "mvcc:"):
		// the embedded etcd itself failed (request timed out under load, ...): the outcome of the call is
		// unknown, the run is outside the failure model and is not judged
		return "envfail"
	default:
		return "err"
	}
}

// Do passes one external call through the gate. `blocking` calls (lock acquisition) are performed
// outside the gate's mutex and logged when they return.
func (g *Gate) Do(ctx context.Context, target, method string, args Event, blocking bool, f func() error) error {
	if g.H != nil {
		g.H.Point(ctx, target+"."+method)
	}
	if g.Bar != nil && !g.Bar.After {
		g.Bar.Wait(target + "." + method)
	}
	if g.Free {
		err := f()
		if g.Bar != nil && g.Bar.After {
			g.Bar.Wait(target + "." + method)
		}
		ev := Event{"ev": "Ext", "op": opOf(ctx), "target": target, "method": method, "class": class(err)}
		for a, v := range args {
			ev[a] = v
		}
		g.Emit(ev)
		return err
	}
	g.mu.Lock()
	if g.dead {
		g.mu.Unlock()
		select {} // the crashed instance never proceeds
	}
	g.n++
	k := g.n
	if g.crashAt != 0 && k == g.crashAt {
		g.dead = true
		g.emitLocked(Event{"ev": "Crash", "k": k, "target": target, "method": method, "op": opOf(ctx)})
		cb := g.onCrash
		g.mu.Unlock()
		if cb != nil {
			cb()
		}
		select {}
	}
	ev := Event{"ev": "Ext", "k": k, "op": opOf(ctx), "target": target, "method": method}
	for a, v := range args {
		ev[a] = v
	}
	if g.failAt != 0 && k == g.failAt {
		ev["class"] = "injected"
		g.emitLocked(ev)
		g.mu.Unlock()
		return fmt.Errorf("%s.%s: %w", target, method, ErrInjected)
	}
	if g.hangAt != 0 && k == g.hangAt {
		// a slow step: the other goroutines of the operation go on meanwhile; the call is then made under whatever is
		// left of its context (a deadline that has passed makes it fail by itself)
		ev["hung"] = true
		g.inflight++ // Quiesce waits for it: the slow call may belong to a detached follow-up of the operation
		g.mu.Unlock()
		time.Sleep(g.HangFor)
		g.mu.Lock()
		g.inflight--
		if g.dead {
			g.mu.Unlock()
			select {}
		}
	}
	if g.cancelAt != 0 && k == g.cancelAt && g.CancelOp != nil {
		// the caller gives up: from this call on the operation runs under a cancelled context (whoever honours it
		// fails by itself; compensations must not depend on it)
		g.CancelOp()
		ev["cancelled"] = true
	}
	if blocking {
		g.inflight++
		g.mu.Unlock()
		err := f()
		g.mu.Lock()
		g.inflight--
		if g.dead {
			g.mu.Unlock()
			select {}
		}
		ev["class"] = class(err)
		g.emitLocked(ev)
		g.mu.Unlock()
		return err
	}
	err := f()
	ev["class"] = class(err)
	if g.obs != nil {
		for a, v := range g.obs() {
			ev[a] = v
		}
	}
	g.emitLocked(ev)
	g.mu.Unlock()
	return err
}

// Holder parks one operation right before its k-th instrumented point (store / plugin / engine / WAL
// call, or - finer - a key-value access inside a store call) until released.
type Holder struct {
	mu      sync.Mutex
	op      string
	at      int
	n       int
	label   string
	atLabel string // alternatively: park at the first point with this label ...
	Skip    int    // ... after this many points with it have passed
	parked  bool
	Ctx     context.Context // the context the parked call was given
	reached chan struct{}
	release chan struct{}
}

func NewHolder(op string, at int) *Holder {
	return &Holder{op: op, at: at, reached: make(chan struct{}), release: make(chan struct{})}
}

func (h *Holder) Point(ctx context.Context, label string) {
	if h == nil || opOf(ctx) != h.op {
		return
	}
	h.mu.Lock()
	h.n++
	hit := h.at != 0 && h.n == h.at
	if h.atLabel != "" && label == h.atLabel && !h.parked {
		if h.Skip > 0 {
			h.Skip--
		} else {
			hit = true
		}
	}
	if hit {
		h.label, h.parked, h.Ctx = label, true, ctx
	}
	h.mu.Unlock()
	if hit {
		close(h.reached)
		<-h.release
	}
}

func (h *Holder) Count() int    { h.mu.Lock(); defer h.mu.Unlock(); return h.n }
func (h *Holder) Label() string { h.mu.Lock(); defer h.mu.Unlock(); return h.label }

// kvW instruments the key-value accesses of the etcd store (Mercury.KV is an exported embedded field).
type kvW struct {
	meta.KV
	e *Env
}

func (k *kvW) pt(ctx context.Context, m string) {
	if k.e.G.H != nil && k.e.KVPoints {
		k.e.G.H.Point(ctx, "kv."+m)
	}
}
func (k *kvW) Get(ctx context.Context, key string, opts ...clientv3.OpOption) (*clientv3.GetResponse, error) {
	k.pt(ctx, "Get")
	return k.KV.Get(ctx, key, opts...)
}
func (k *kvW) GetOne(ctx context.Context, key string, opts ...clientv3.OpOption) (*mvccpb.KeyValue, error) {
	k.pt(ctx, "GetOne")
	return k.KV.GetOne(ctx, key, opts...)
}
func (k *kvW) GetMulti(ctx context.Context, keys []string, opts ...clientv3.OpOption) ([]*mvccpb.KeyValue, error) {
	k.pt(ctx, "GetMulti")
	return k.KV.GetMulti(ctx, keys, opts...)
}
func (k *kvW) Delete(ctx context.Context, key string, opts ...clientv3.OpOption) (*clientv3.DeleteResponse, error) {
	k.pt(ctx, "Delete")
	return k.KV.Delete(ctx, key, opts...)
}
func (k *kvW) BatchCreate(ctx context.Context, data map[string]string, opts ...clientv3.OpOption) (*clientv3.TxnResponse, error) {
	k.pt(ctx, "BatchCreate")
	return k.KV.BatchCreate(ctx, data, opts...)
}
func (k *kvW) BatchDelete(ctx context.Context, keys []string, opts ...clientv3.OpOption) (*clientv3.TxnResponse, error) {
	k.pt(ctx, "BatchDelete")
	return k.KV.BatchDelete(ctx, keys, opts...)
}
func (k *kvW) BatchPut(ctx context.Context, data map[string]string, opts ...clientv3.OpOption) (*clientv3.TxnResponse, error) {
	k.pt(ctx, "BatchPut")
	return k.KV.BatchPut(ctx, data, opts...)
}
func (k *kvW) BatchUpdate(ctx context.Context, data map[string]string, opts ...clientv3.OpOption) (*clientv3.TxnResponse, error) {
	k.pt(ctx, "BatchUpdate")
	return k.KV.BatchUpdate(ctx, data, opts...)
}
func (k *kvW) BatchCreateAndDecr(ctx context.Context, data map[string]string, decrKey string) error {
	k.pt(ctx, "BatchCreateAndDecr")
	return k.KV.BatchCreateAndDecr(ctx, data, decrKey)
}

// ---------------------------------------------------------------------------------- environment

type Env struct {
	T     *testing.T
	Cfg   coretypes.Config
	Cal   *calcium.Calcium
	Raw   store.Store      // the real store under the wrapper
	Rmgr  resource.Manager // the real manager under the wrapper
	Wal   wal.WAL          // the real WAL under the wrapper
	G     *Gate
	Eng   *Engines
	Locks *lockBook
	dir   string
	// KVPoints: also count the store's key-value accesses as hold points (store-internal windows)
	KVPoints bool
}

// globalTimeout: 20 s, or VERIF_GT_MS (the pass with slow steps uses a short one)
func globalTimeout() time.Duration {
	if ms, err := strconv.Atoi(os.Getenv("VERIF_GT_MS")); err == nil && ms > 0 {
		return time.Duration(ms) * time.Millisecond
	}
	return 20 * time.Second
}

// ConfigHook lets a driver adjust the configuration before the Calcium is built.
var ConfigHook func(*coretypes.Config)

var engineOnce sync.Once

// StoreName: which metadata store the Calcium of this process uses.
func StoreName() string {
	if os.Getenv("VERIF_STORE") == "redis" {
		return "redis"
	}
	return "etcd"
}

var sharedRedis *miniredis.Miniredis

func BaseConfig(dir string) coretypes.Config {
	return coretypes.Config{
		MaxConcurrency:    100000,
		GlobalTimeout:     globalTimeout(),
		LockTimeout:       3 * time.Second,
		ConnectionTimeout: 10 * time.Second, // engine cache liveness loop sleeps this long (0 would spin)
		WALFile:           filepath.Join(dir, "core.wal"),
		WALOpenTimeout:    3 * time.Second,
		Store:             "etcd",
		Etcd:              coretypes.EtcdConfig{Prefix: "/verifcluster", LockPrefix: "__lock__"},
		Scheduler:         coretypes.SchedulerConfig{MaxShare: -1, ShareBase: 100, MaxDeployCount: 10000},
		GRPCConfig:        coretypes.GRPCConfig{ServiceDiscoveryPushInterval: time.Second, ServiceHeartbeatInterval: time.Second},
	}
}

// NewEnv builds one Calcium on the test's embedded etcd. Calling it again with the same t and
// directory yields a second core instance on the same store and WAL file (used after a crash).
func NewEnv(t *testing.T, dir string, g *Gate, eng *Engines) *Env {
	cfg := BaseConfig(dir)
	if ConfigHook != nil {
		ConfigHook(&cfg)
	}
	if os.Getenv("VERIF_STORE") == "redis" {
		// metadata store = store/redis on one miniredis per process (the cpumem plugin keeps using etcd)
		if sharedRedis == nil {
			mr, err := miniredis.Run()
			if err != nil {
				t.Fatalf("miniredis: %v", err)
			}
			sharedRedis = mr
		}
		cfg.Store = "redis"
		cfg.Redis = coretypes.RedisConfig{Addr: sharedRedis.Addr(), LockPrefix: "__lock__"}
	}
	engineOnce.Do(func() { enginefactory.InitEngineCache(context.Background(), cfg, nil) })
	cal, err := calcium.New(context.Background(), cfg, t)
	if err != nil {
		t.Fatalf("calcium.New: %v", err)
	}
	if g == nil {
		g = &Gate{}
	}
	if eng == nil {
		eng = NewEngines(g)
	}
	e := &Env{T: t, Cfg: cfg, Cal: cal, G: g, Eng: eng, Locks: &lockBook{held: map[*lockW]bool{}}, dir: dir}
	cal.VerifInterpose(
		func(s store.Store) store.Store {
			e.Raw = s
			if m, ok := s.(*etcdv3.Mercury); ok {
				if _, wrapped := m.KV.(*kvW); !wrapped {
					m.KV = &kvW{KV: m.KV, e: e}
				}
			}
			return &storeW{Store: s, e: e}
		},
		func(m resource.Manager) resource.Manager {
			// e.Rmgr: an unwrapped manager for read-backs; the Calcium gets a manager over the decorated plugin
			e.Rmgr = m
			plugin, err := cpumem.NewPlugin(context.Background(), cfg, t)
			if err != nil {
				t.Fatalf("cpumem.NewPlugin: %v", err)
			}
			mgr, err := cobalt.New(cfg)
			if err != nil {
				t.Fatalf("cobalt.New: %v", err)
			}
			mgr.AddPlugins(&pluginW{Plugin: plugin, e: e})
			return &rmgrW{Manager: mgr, e: e}
		},
		func(w wal.WAL) wal.WAL { e.Wal = w; return &walW{WAL: w, e: e} },
	)
	return e
}

func TempDir(t *testing.T) string {
	d, err := os.MkdirTemp("", "verif-cluster-")
	if err != nil {
		t.Fatal(err)
	}
	t.Cleanup(func() { os.RemoveAll(d) })
	return d
}

// Op returns a context that carries the operation's identity through the code (tracing id).
func Op(id string) context.Context {
	return context.WithValue(context.Background(), coretypes.TracingID, id)
}

// Quiesce waits until every API call has returned (the caller's business), no wrapped call is in
// flight and no new gate event appeared for a settle period (detached follow-ups such as remap run
// from one wrapped call to the next in microseconds). The pool-based VerifIdle hook is only a
// secondary signal: ants keeps idle workers alive for a second, so it lags.
func (e *Env) Quiesce(max time.Duration) bool {
	deadline := time.Now().Add(max)
	stable := 0
	last := -1
	for time.Now().Before(deadline) {
		e.G.mu.Lock()
		s, fl := e.G.seq, e.G.inflight
		e.G.mu.Unlock()
		if fl == 0 && s == last {
			stable++
			if stable >= 8 || (stable >= 3 && e.Cal.VerifIdle()) {
				return true
			}
		} else {
			stable = 0
		}
		last = s
		time.Sleep(10 * time.Millisecond)
	}
	return false
}

// WipeStore deletes every key of the store and the plugin (shared embedded etcd, miniredis).
func (e *Env) WipeStore() {
	_, _ = e.etcdCli().Delete(context.Background(), "/", clientv3.WithPrefix())
	if sharedRedis != nil {
		sharedRedis.FlushAll()
	}
	e.Eng.Reset()
}

// etcdCli: the embedded cluster's (namespaced) client, shared by the etcd store and the cpumem plugin.
func (e *Env) etcdCli() *clientv3.Client {
	return embedded.NewCluster(e.T, e.Cfg.Etcd.Prefix).RandClient()
}

// ---------------------------------------------------------------------------------- locks

type lockBook struct {
	mu   sync.Mutex
	held map[*lockW]bool
}

type lockW struct {
	lock.DistributedLock
	e   *Env
	key string
	op  string
	gid uint64 // the goroutine that acquired it
}

// curGID: the id of the running goroutine (from the first line of its stack: "goroutine 123 [running]:")
func curGID() uint64 {
	var buf [64]byte
	n := runtime.Stack(buf[:], false)
	var id uint64
	for _, c := range buf[len("goroutine "):n] {
		if c < '0' || c > '9' {
			break
		}
		id = id*10 + uint64(c-'0')
	}
	return id
}

// heldBy: the keys of the locks this goroutine acquired and has not released
func (b *lockBook) heldBy(gid uint64) []string {
	b.mu.Lock()
	defer b.mu.Unlock()
	out := []string{}
	for l := range b.held {
		if l.gid == gid {
			out = append(out, l.key)
		}
	}
	sort.Strings(out)
	return out
}

type heldKeyT struct{}

// the locks held on the path that leads to a Lock call: those that travel in the context the code threads
// through its nested helpers (Lock returns a context; a parent that waits for its tasks passes it on to them;
// detached goroutines start from a fresh one), plus those the calling goroutine itself acquired and still
// holds (a nested call made in place holds them whatever context it builds for itself)
func heldIn(ctx context.Context) []string {
	if h, ok := ctx.Value(heldKeyT{}).([]string); ok {
		return h
	}
	return []string{}
}

func (l *lockW) acquire(ctx context.Context, method string, f func(context.Context) (context.Context, error)) (context.Context, error) {
	var rctx context.Context
	l.op = opOf(ctx)
	gid := curGID()
	ctxHeld := heldIn(ctx)
	held := append([]string{}, ctxHeld...)
	for _, k := range l.e.Locks.heldBy(gid) {
		if !contains(held, k) {
			held = append(held, k)
		}
	}
	err := l.e.G.Do(ctx, "lock", method, Event{"key": l.key, "held": held}, true, func() (err error) {
		rctx, err = f(ctx)
		return err
	})
	if err == nil {
		l.e.Locks.mu.Lock()
		l.gid = gid
		l.e.Locks.held[l] = true
		l.e.Locks.mu.Unlock()
		if rctx != nil {
			rctx = context.WithValue(rctx, heldKeyT{}, append(append([]string{}, ctxHeld...), l.key))
		}
	}
	return rctx, err
}

func (l *lockW) Lock(ctx context.Context) (context.Context, error) {
	return l.acquire(ctx, "Lock", l.DistributedLock.Lock)
}

func (l *lockW) TryLock(ctx context.Context) (context.Context, error) {
	return l.acquire(ctx, "TryLock", l.DistributedLock.TryLock)
}

func (l *lockW) Unlock(ctx context.Context) error {
	l.e.Locks.mu.Lock()
	delete(l.e.Locks.held, l)
	l.e.Locks.mu.Unlock()
	// unlocking is not a fault/crash position of its own (it has no effect on metadata), but it is logged
	l.e.G.Pass()
	err := l.DistributedLock.Unlock(ctx)
	l.e.G.Emit(Event{"ev": "Unlock", "op": l.op, "key": l.key, "class": class(err)})
	return err
}

func (b *lockBook) keysOf(op string) []string {
	b.mu.Lock()
	defer b.mu.Unlock()
	out := []string{}
	for l := range b.held {
		if l.op == op {
			out = append(out, l.key)
		}
	}
	sort.Strings(out)
	return out
}

// ReleaseAll force-releases every lock the (crashed) instance holds: what lease expiry would do.
func (b *lockBook) ReleaseAll() {
	b.mu.Lock()
	ls := []*lockW{}
	for l := range b.held {
		ls = append(ls, l)
	}
	b.held = map[*lockW]bool{}
	b.mu.Unlock()
	for _, l := range ls {
		ctx, cancel := context.WithTimeout(context.Background(), 3*time.Second)
		_ = l.DistributedLock.Unlock(ctx)
		cancel()
	}
}

// ---------------------------------------------------------------------------------- store wrapper

type storeW struct {
	store.Store
	e *Env
}

func (s *storeW) fixNode(n *coretypes.Node) *coretypes.Node {
	if n != nil {
		n.Engine = s.e.Eng.For(n.Name, n.Engine)
	}
	return n
}
func (s *storeW) fixWl(w *coretypes.Workload) *coretypes.Workload {
	if w != nil {
		w.Engine = s.e.Eng.For(w.Nodename, w.Engine)
	}
	return w
}

func (s *storeW) do(ctx context.Context, method string, args Event, f func() error) error {
	return s.e.G.Do(ctx, "store", method, args, false, f)
}

func (s *storeW) CreateLock(key string, ttl time.Duration) (lock.DistributedLock, error) {
	l, err := s.Store.CreateLock(key, ttl)
	if err != nil {
		return nil, err
	}
	return &lockW{DistributedLock: l, e: s.e, key: key}, nil
}

func (s *storeW) AddPod(ctx context.Context, name, desc string) (p *coretypes.Pod, err error) {
	err = s.do(ctx, "AddPod", Event{"pod": name}, func() error { p, err = s.Store.AddPod(ctx, name, desc); return err })
	return
}
func (s *storeW) RemovePod(ctx context.Context, name string) error {
	return s.do(ctx, "RemovePod", Event{"pod": name}, func() error { return s.Store.RemovePod(ctx, name) })
}
func (s *storeW) GetPod(ctx context.Context, name string) (p *coretypes.Pod, err error) {
	err = s.do(ctx, "GetPod", Event{"pod": name}, func() error { p, err = s.Store.GetPod(ctx, name); return err })
	return
}
func (s *storeW) AddNode(ctx context.Context, o *coretypes.AddNodeOptions) (n *coretypes.Node, err error) {
	err = s.do(ctx, "AddNode", Event{"node": o.Nodename, "pod": o.Podname}, func() error { n, err = s.Store.AddNode(ctx, o); return err })
	return s.fixNode(n), err
}
func (s *storeW) RemoveNode(ctx context.Context, n *coretypes.Node) error {
	return s.do(ctx, "RemoveNode", Event{"node": n.Name}, func() error { return s.Store.RemoveNode(ctx, n) })
}
func (s *storeW) GetNode(ctx context.Context, name string) (n *coretypes.Node, err error) {
	err = s.do(ctx, "GetNode", Event{"node": name}, func() error { n, err = s.Store.GetNode(ctx, name); return err })
	return s.fixNode(n), err
}
func (s *storeW) GetNodes(ctx context.Context, names []string) (ns []*coretypes.Node, err error) {
	err = s.do(ctx, "GetNodes", Event{"nodes": names}, func() error { ns, err = s.Store.GetNodes(ctx, names); return err })
	for _, n := range ns {
		s.fixNode(n)
	}
	return
}
func (s *storeW) GetNodesByPod(ctx context.Context, f *coretypes.NodeFilter, opts ...store.Option) (ns []*coretypes.Node, err error) {
	err = s.do(ctx, "GetNodesByPod", Event{"pod": f.Podname, "all": f.All}, func() error { ns, err = s.Store.GetNodesByPod(ctx, f, opts...); return err })
	for _, n := range ns {
		s.fixNode(n)
	}
	return
}
func (s *storeW) UpdateNodes(ctx context.Context, ns ...*coretypes.Node) error {
	names := []string{}
	for _, n := range ns {
		names = append(names, n.Name)
	}
	return s.do(ctx, "UpdateNodes", Event{"nodes": names}, func() error { return s.Store.UpdateNodes(ctx, ns...) })
}
func (s *storeW) GetNodeStatus(ctx context.Context, name string) (st *coretypes.NodeStatus, err error) {
	err = s.do(ctx, "GetNodeStatus", Event{"node": name}, func() error { st, err = s.Store.GetNodeStatus(ctx, name); return err })
	return
}
func (s *storeW) SetNodeStatus(ctx context.Context, n *coretypes.Node, ttl int64) error {
	return s.do(ctx, "SetNodeStatus", Event{"node": n.Name, "ttl": ttl}, func() error { return s.Store.SetNodeStatus(ctx, n, ttl) })
}
func (s *storeW) AddWorkload(ctx context.Context, w *coretypes.Workload, p *coretypes.Processing) error {
	return s.do(ctx, "AddWorkload", Event{"id": w.ID, "node": w.Nodename, "decr": p != nil}, func() error { return s.Store.AddWorkload(ctx, w, p) })
}
func (s *storeW) UpdateWorkload(ctx context.Context, w *coretypes.Workload) error {
	return s.do(ctx, "UpdateWorkload", Event{"id": w.ID, "node": w.Nodename}, func() error { return s.Store.UpdateWorkload(ctx, w) })
}
func (s *storeW) RemoveWorkload(ctx context.Context, w *coretypes.Workload) error {
	return s.do(ctx, "RemoveWorkload", Event{"id": w.ID, "node": w.Nodename}, func() error { return s.Store.RemoveWorkload(ctx, w) })
}
func (s *storeW) GetWorkload(ctx context.Context, id string) (w *coretypes.Workload, err error) {
	err = s.do(ctx, "GetWorkload", Event{"id": id}, func() error { w, err = s.Store.GetWorkload(ctx, id); return err })
	return s.fixWl(w), err
}
func (s *storeW) GetWorkloads(ctx context.Context, ids []string) (ws []*coretypes.Workload, err error) {
	err = s.do(ctx, "GetWorkloads", Event{"ids": ids}, func() error { ws, err = s.Store.GetWorkloads(ctx, ids); return err })
	for _, w := range ws {
		s.fixWl(w)
	}
	return
}
func (s *storeW) ListWorkloads(ctx context.Context, app, entry, node string, limit int64, labels map[string]string) (ws []*coretypes.Workload, err error) {
	err = s.do(ctx, "ListWorkloads", Event{"app": app, "entry": entry, "node": node}, func() error {
		ws, err = s.Store.ListWorkloads(ctx, app, entry, node, limit, labels)
		return err
	})
	for _, w := range ws {
		s.fixWl(w)
	}
	return
}
func (s *storeW) ListNodeWorkloads(ctx context.Context, node string, labels map[string]string) (ws []*coretypes.Workload, err error) {
	err = s.do(ctx, "ListNodeWorkloads", Event{"node": node}, func() error { ws, err = s.Store.ListNodeWorkloads(ctx, node, labels); return err })
	for _, w := range ws {
		s.fixWl(w)
	}
	return
}
func (s *storeW) SetWorkloadStatus(ctx context.Context, st *coretypes.StatusMeta, ttl int64) error {
	return s.do(ctx, "SetWorkloadStatus", Event{"id": st.ID, "ttl": ttl}, func() error { return s.Store.SetWorkloadStatus(ctx, st, ttl) })
}
func (s *storeW) GetDeployStatus(ctx context.Context, app, entry string) (m map[string]int, err error) {
	err = s.do(ctx, "GetDeployStatus", Event{"app": app, "entry": entry}, func() error { m, err = s.Store.GetDeployStatus(ctx, app, entry); return err })
	return
}
func (s *storeW) CreateProcessing(ctx context.Context, p *coretypes.Processing, count int) error {
	return s.do(ctx, "CreateProcessing", Event{"node": p.Nodename, "ident": p.Ident, "count": count}, func() error { return s.Store.CreateProcessing(ctx, p, count) })
}
func (s *storeW) DeleteProcessing(ctx context.Context, p *coretypes.Processing) error {
	return s.do(ctx, "DeleteProcessing", Event{"node": p.Nodename, "ident": p.Ident}, func() error { return s.Store.DeleteProcessing(ctx, p) })
}

// ---------------------------------------------------------------------------------- resource manager wrapper

type rmgrW struct {
	resource.Manager
	e *Env
}

// manager calls are logged (the trace needs e.g. the planned count of every Alloc) but the fault / crash
// positions are the plugin calls underneath them
func (m *rmgrW) do(ctx context.Context, method string, args Event, f func() error) error {
	m.e.G.Pass()
	err := f()
	ev := Event{"ev": "Ext", "k": 0, "op": opOf(ctx), "target": "rmgr", "method": method, "class": class(err)}
	for a, v := range args {
		ev[a] = v
	}
	m.e.G.Emit(ev)
	return err
}

func (m *rmgrW) AddNode(ctx context.Context, node string, r resourcetypes.Resources, info *enginetypes.Info) (res resourcetypes.Resources, err error) {
	err = m.do(ctx, "AddNode", Event{"node": node}, func() error { res, err = m.Manager.AddNode(ctx, node, r, info); return err })
	return
}
func (m *rmgrW) RemoveNode(ctx context.Context, node string) error {
	return m.do(ctx, "RemoveNode", Event{"node": node}, func() error { return m.Manager.RemoveNode(ctx, node) })
}
func (m *rmgrW) GetNodesDeployCapacity(ctx context.Context, nodes []string, r resourcetypes.Resources) (c map[string]*plugintypes.NodeDeployCapacity, total int, err error) {
	sorted := append([]string{}, nodes...)
	sort.Strings(sorted)
	err = m.do(ctx, "GetNodesDeployCapacity", Event{"nodes": sorted, "argorder": nodes}, func() error { c, total, err = m.Manager.GetNodesDeployCapacity(ctx, nodes, r); return err })
	return
}
func (m *rmgrW) SetNodeResourceCapacity(ctx context.Context, node string, nr, nrr resourcetypes.Resources, delta, incr bool) (a, b resourcetypes.Resources, err error) {
	err = m.do(ctx, "SetNodeResourceCapacity", Event{"node": node, "delta": delta, "incr": incr}, func() error {
		a, b, err = m.Manager.SetNodeResourceCapacity(ctx, node, nr, nrr, delta, incr)
		return err
	})
	return
}
func (m *rmgrW) SetNodeResourceUsage(ctx context.Context, node string, nr, nrr resourcetypes.Resources, wr []resourcetypes.Resources, delta, incr bool) (a, b resourcetypes.Resources, err error) {
	err = m.do(ctx, "SetNodeResourceUsage", Event{"node": node, "delta": delta, "incr": incr, "n": len(wr)}, func() error {
		a, b, err = m.Manager.SetNodeResourceUsage(ctx, node, nr, nrr, wr, delta, incr)
		return err
	})
	return
}
func (m *rmgrW) GetNodeResourceInfo(ctx context.Context, node string, ws []*coretypes.Workload, fix bool) (a, b resourcetypes.Resources, d []string, err error) {
	err = m.do(ctx, "GetNodeResourceInfo", Event{"node": node, "fix": fix}, func() error { a, b, d, err = m.Manager.GetNodeResourceInfo(ctx, node, ws, fix); return err })
	return
}
func (m *rmgrW) Alloc(ctx context.Context, node string, n int, r resourcetypes.Resources) (a, b []resourcetypes.Resources, err error) {
	err = m.do(ctx, "Alloc", Event{"node": node, "n": n}, func() error { a, b, err = m.Manager.Alloc(ctx, node, n, r); return err })
	return
}
func (m *rmgrW) RollbackAlloc(ctx context.Context, node string, rs []resourcetypes.Resources) error {
	return m.do(ctx, "RollbackAlloc", Event{"node": node, "n": len(rs)}, func() error { return m.Manager.RollbackAlloc(ctx, node, rs) })
}
func (m *rmgrW) Realloc(ctx context.Context, node string, origin, opts resourcetypes.Resources) (a, b, c resourcetypes.Resources, err error) {
	err = m.do(ctx, "Realloc", Event{"node": node}, func() error { a, b, c, err = m.Manager.Realloc(ctx, node, origin, opts); return err })
	return
}
func (m *rmgrW) RollbackRealloc(ctx context.Context, node string, r resourcetypes.Resources) error {
	return m.do(ctx, "RollbackRealloc", Event{"node": node}, func() error { return m.Manager.RollbackRealloc(ctx, node, r) })
}
func (m *rmgrW) Remap(ctx context.Context, node string, ws []*coretypes.Workload) (r map[string]resourcetypes.Resources, err error) {
	// remap is a detached, idempotent follow-up: never a fault position (it would only be logged)
	m.e.G.Pass()
	r, err = m.Manager.Remap(ctx, node, ws)
	m.e.G.Emit(Event{"ev": "Remap", "op": opOf(ctx), "node": node, "class": class(err)})
	return
}

// ---------------------------------------------------------------------------------- WAL wrapper

type walW struct {
	wal.WAL
	e *Env
}

func (w *walW) Log(typ string, item any) (wal.Commit, error) {
	var c wal.Commit
	err := w.e.G.Do(nil, "wal", "Log", Event{"type": typ}, false, func() (err error) { c, err = w.WAL.Log(typ, item); return err })
	if err != nil || c == nil {
		return c, err
	}
	return func() error {
		// a commit is an externally visible step: a crash (or a failure) can fall right before it
		return w.e.G.Do(nil, "wal", "Commit", Event{"type": typ}, false, c)
	}, nil
}
