package cluster

// Driver for C28: TLC-simulated histories of heartbeats, lapses (status deleted or expired),
// workload creations, agent reports and watcher starts on two real (non-test) nodes, with the
// repository's own selfmon.RunNodeStatusWatcher running against the real Calcium. At the end the
// workload statuses are polled until every lapsed node's workloads are down (or a deadline).

import (
	"context"
	"fmt"
	"testing"
	"time"

	"github.com/projecteru2/core/selfmon"
	coretypes "github.com/projecteru2/core/types"
	"verif/harness/vt"
)

type monOp struct {
	Op string `json:"op"`
	N  string `json:"n"`
}

func TestClusterSelfmon(t *testing.T) {
	out := vt.OpenTrace(t)
	defer out.Close()
	env := NewEnv(t, TempDir(t), &Gate{}, nil)
	cfg := env.Cfg
	cfg.HAKeepaliveInterval = 2 * time.Second
	cfg.ConnectionTimeout = 300 * time.Millisecond
	run := 0
	jit := vt.StartJitter()
	jit.Probe(func() { _, _ = env.etcdCli().Get(context.Background(), "/verif-probe") }, 500*time.Millisecond)
	defer jit.Stop()
	vt.EachInput(t, func(raw []byte) {
		var in struct {
			Ops []monOp `json:"ops"`
		}
		vt.MustUnmarshal(t, raw, &in)
		run++
		tStart := time.Now()
		env.WipeStore()
		env.G.H, env.G.Free = nil, false
		ctx := Op("setup")
		if _, err := env.Cal.AddPod(ctx, "p1", ""); err != nil {
			t.Fatal(err)
		}
		res, _ := nodeResources("plain2")
		nodes := map[string]*coretypes.Node{}
		for _, n := range []string{"n1", "n2"} {
			if _, err := env.Rmgr.AddNode(ctx, n, res, nil); err != nil {
				t.Fatal(err)
			}
			node, err := env.Raw.AddNode(ctx, &coretypes.AddNodeOptions{Nodename: n, Endpoint: "tcp://127.0.0.1:1", Podname: "p1", Labels: map[string]string{}})
			if err != nil {
				t.Fatal(err)
			}
			nodes[n] = node
			if err := env.Raw.SetNodeStatus(ctx, node, 36000); err != nil {
				t.Fatal(err)
			}
		}
		wls := map[string][]string{}
		report := func(n, id string) {
			st := &coretypes.StatusMeta{ID: id, Running: true, Healthy: true, Appname: "app", Entrypoint: "e", Nodename: n}
			if err := env.Raw.SetWorkloadStatus(ctx, st, 0); err != nil {
				t.Fatal(err)
			}
		}
		wctx, cancel := context.WithCancel(Op("mon"))
		watcherDone := make(chan struct{})
		started := false
		for _, op := range in.Ops {
			switch op.Op {
			case "hb":
				_ = env.Raw.SetNodeStatus(ctx, nodes[op.N], 36000)
			case "lapse":
				_ = env.Raw.SetNodeStatus(ctx, nodes[op.N], -1)
			case "expire":
				_ = env.Raw.SetNodeStatus(ctx, nodes[op.N], 1)
			case "addwl":
				id := fmt.Sprintf("%s%02dw%dxxxxxxxxxxxxxxxxxxxxxxxxxxxxxxxxxxxxxxxxxxxxxxxxxxxxxxxxxx", op.N, run%100, len(wls[op.N]))
				if err := env.Raw.AddWorkload(ctx, &coretypes.Workload{ID: id, Name: "app_e_x", Nodename: op.N, Podname: "p1", Labels: map[string]string{}}, nil); err != nil {
					t.Fatal(err)
				}
				wls[op.N] = append(wls[op.N], id)
				report(op.N, id)
			case "report":
				for _, id := range wls[op.N] {
					report(op.N, id)
				}
			case "start":
				started = true
				go func() {
					defer close(watcherDone)
					selfmon.RunNodeStatusWatcher(wctx, cfg, env.Cal, t)
				}()
			case "startlapse":
				// the watcher's initial scan is parked when it has looked at the first node (n1: right before it asks for the
				// second node's status); the watch has had time to open; op.N's status is deleted; the scan goes on
				started = true
				h := NewHolder("mon", 0)
				h.atLabel, h.Skip = "store.GetNodeStatus", 1
				env.G.Free, env.G.H = true, h
				go func() {
					defer close(watcherDone)
					selfmon.RunNodeStatusWatcher(wctx, cfg, env.Cal, t)
				}()
				select {
				case <-h.reached:
					time.Sleep(300 * time.Millisecond)
				case <-time.After(5 * time.Second):
				}
				_ = env.Raw.SetNodeStatus(ctx, nodes[op.N], -1)
				time.Sleep(50 * time.Millisecond)
				close(h.release)
			case "wait":
				time.Sleep(800 * time.Millisecond)
			}
			time.Sleep(200 * time.Millisecond) // longer than the watcher needs to handle a lapse (tens of ms)
		}
		observe := func() ([]Event, bool) {
			final := []Event{}
			allDown := true
			for _, n := range []string{"n1", "n2"} {
				_, err := env.Raw.GetNodeStatus(context.Background(), n)
				alive := err == nil
				ws := []Event{}
				for _, id := range wls[n] {
					st, err := env.Raw.GetWorkloadStatus(context.Background(), id)
					r, h := false, false
					if err == nil && st != nil {
						r, h = st.Running, st.Healthy
					}
					ws = append(ws, Event{"id": id, "running": r, "healthy": h})
					if !alive && (r || h) {
						allDown = false
					}
				}
				final = append(final, Event{"node": n, "alive": alive, "wls": ws})
			}
			return final, allDown
		}
		t0 := time.Now()
		hasExpire := false
		for _, op := range in.Ops {
			hasExpire = hasExpire || op.Op == "expire"
		}
		var final []Event
		for {
			var ok bool
			final, ok = observe()
			// an expiring status needs its TTL to run out; afterwards wait for the watcher
			min := 400 * time.Millisecond
			if hasExpire {
				min = 3500 * time.Millisecond
			}
			if (ok && time.Since(t0) > min) || time.Since(t0) > 12*time.Second || !started && time.Since(t0) > min {
				break
			}
			time.Sleep(100 * time.Millisecond)
		}
		out.Emit(Event{"ev": "Mon", "run": run, "ops": in.Ops, "final": final, "started": started, "waited": time.Since(t0).Milliseconds(), "starved": jit.StarvedSince(tStart)})
		cancel()
		if started {
			select {
			case <-watcherDone:
			case <-time.After(8 * time.Second):
				t.Logf("watcher did not stop")
			}
		}
	})
	t.Logf("selfmon histories: %d", run)
}
