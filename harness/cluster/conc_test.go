package cluster

// Driver for C22 under concurrency: for every pair of operations (A, B) and pre-state enumerated by
// the ClusterConc model, A is parked right before each of its instrumented points in turn (store /
// plugin / engine / WAL calls and the key-value accesses inside store calls), B runs to completion
// inside that window, A is released; the final state is read back and judged.

import (
	"testing"
	"time"

	coretypes "github.com/projecteru2/core/types"
	"verif/harness/vt"
)

type concIn struct {
	Pre string `json:"pre"`
	A   string `json:"a"`
	B   string `json:"b"`
}

func concScenario(pre, kind string) *Scenario {
	sc := &Scenario{}
	switch pre {
	case "empty-pod":
		sc.Nodes = []NodeSpec{{Name: "nx", Pod: "p0", Kind: "plain2"}} // another pod, so that the environment is not empty
	case "with-node":
		sc.Nodes = []NodeSpec{{Name: "n1", Pod: "p1", Kind: "plain2"}}
	case "with-workload":
		sc.Nodes = []NodeSpec{{Name: "n1", Pod: "p1", Kind: "plain2"}}
		sc.Wls = []WlSpec{{Node: "n1", Req: "m", App: "a"}} // 2 of the node's 4 memory units
	}
	op := OpSpec{Kind: kind, Pod: "p1", App: "a"}
	switch kind {
	case "addnode", "removenode":
		op.Nodes = []string{"n1"}
	case "create":
		op.Strategy, op.Count, op.Req = "AUTO", 1, "m" // 2 more units: fits only if nothing else grew meanwhile
	case "realloc":
		op.Targets, op.Delta = []int{0}, "mem+" // 1 more unit
	case "remove":
		op.Targets, op.Force = []int{0}, true
	}
	sc.Op = op
	return sc
}

func TestClusterConc(t *testing.T) {
	out := vt.OpenTrace(t)
	defer out.Close()
	ConfigHook = func(c *coretypes.Config) { c.LockTimeout = 600 * time.Millisecond }
	defer func() { ConfigHook = nil }()
	g := &Gate{Free: true}
	env := NewEnv(t, TempDir(t), g, nil)
	env.KVPoints = true
	run := 0
	build := func(in *concIn) (*Built, bool) {
		env.WipeStore()
		g.H = nil
		g.Reset(0, 0)
		g.Free = true
		sc := concScenario(in.Pre, in.A)
		b, err := env.Build(sc)
		if err != nil {
			t.Logf("pre-state: %v", err)
			return nil, false
		}
		if in.Pre == "empty-pod" { // pod p1 exists and is empty
			if _, err := env.Cal.AddPod(Op("setup"), "p1", ""); err != nil {
				return nil, false
			}
		}
		b.Dims["n1"] = [2]int{2, 0}
		return b, true
	}
	exec := func(in *concIn, kind string, b *Built, id string) []Event {
		sc := concScenario(in.Pre, kind)
		if (kind == "remove" || kind == "realloc") && len(b.IDs) == 0 {
			return []Event{{"ev": "Return", "op": id, "kind": kind, "class": "noop"}}
		}
		return env.Exec(sc, b, id, 15*time.Second)
	}
	vt.EachInput(t, func(raw []byte) {
		var in concIn
		vt.MustUnmarshal(t, raw, &in)
		// dry run of A alone: how many points does it have?
		b, ok := build(&in)
		if !ok {
			return
		}
		h0 := NewHolder("opA", 0)
		g.H = h0
		exec(&in, in.A, b, "opA")
		env.Quiesce(5 * time.Second)
		K := h0.Count()
		for k := 1; k <= K; k++ {
			b, ok := build(&in)
			if !ok {
				return
			}
			run++
			h := NewHolder("opA", k)
			g.H = h
			doneA := make(chan []Event, 1)
			go func() { doneA <- exec(&in, in.A, b, "opA") }()
			var evA []Event
			reached := false
			select {
			case <-h.reached:
				reached = true
			case evA = <-doneA:
			case <-time.After(15 * time.Second):
			}
			evB := exec(&in, in.B, b, "opB")
			if reached {
				close(h.release)
			}
			if evA == nil {
				select {
				case evA = <-doneA:
				case <-time.After(20 * time.Second):
					evA = []Event{{"ev": "Return", "op": "opA", "kind": in.A, "class": "hang"}}
				}
			}
			env.Quiesce(5 * time.Second)
			g.Take()
			snap := env.Snapshot(b.Dims)
			snap["when"] = "post"
			out.Emit(Event{"ev": "Conc", "run": run, "pre": in.Pre, "a": in.A, "b": in.B, "k": k, "point": h.Label(), "reached": reached,
				"retA": evA[len(evA)-1]["class"], "retB": evB[len(evB)-1]["class"], "snap": snap})
		}
	})
	t.Logf("concurrent runs: %d", run)
}
