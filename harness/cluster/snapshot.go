package cluster

// Projection of the real cluster state to the abstract state of Cluster.tla: read back through
// the REAL store / manager (not the wrappers), plus raw key reads for what the API cannot list
// (resource records without a node, workloads whose node is gone, processing markers).

import (
	"context"
	"encoding/json"
	"fmt"
	"math"
	"sort"
	"strconv"
	"strings"

	resourcetypes "github.com/projecteru2/core/resource/types"
	coretypes "github.com/projecteru2/core/types"
	clientv3 "go.etcd.io/etcd/client/v3"
)

func num(v any) float64 {
	switch x := v.(type) {
	case float64:
		return x
	case int:
		return float64(x)
	case int64:
		return float64(x)
	case json.Number:
		f, _ := x.Float64()
		return f
	case string:
		f, _ := strconv.ParseFloat(x, 64)
		return f
	}
	return 0
}

func asMap(v any) map[string]any {
	switch m := v.(type) {
	case map[string]any:
		return m
	case resourcetypes.RawParams:
		return m
	}
	// typed maps (CPUMap, NUMAMemory ...) : go through JSON
	b, err := json.Marshal(v)
	if err != nil {
		return nil
	}
	out := map[string]any{}
	_ = json.Unmarshal(b, &out)
	return out
}

func vec(m map[string]any, n int) []int64 {
	out := make([]int64, n)
	for k, v := range m {
		i, err := strconv.Atoi(k)
		if err == nil && i >= 0 && i < n {
			out[i] = int64(math.Round(num(v)))
		} else if err == nil && i >= n {
			out = append(out, make([]int64, i-n+1)...)
			out[i] = int64(math.Round(num(v)))
			n = i + 1
		}
	}
	return out
}

// projRes: a cpumem node capacity/usage record -> {cpu (pieces), mem, cores[], numamem[]}
func projRes(r resourcetypes.Resources, ncore, nnuma, base int) Event {
	p := asMap(r["cpumem"])
	if p == nil {
		return Event{"cpu": 0, "mem": 0, "cores": make([]int64, ncore), "numamem": make([]int64, nnuma), "numa": []int64{}, "missing": true}
	}
	// numa: for every core the NUMA node it is mapped to (-1: none) - part of a node's capacity
	numa := make([]int64, ncore)
	for i := range numa {
		numa[i] = -1
	}
	for k, v := range asMap(p["numa"]) {
		i, err := strconv.Atoi(k)
		n, err2 := strconv.Atoi(fmt.Sprint(v))
		if err != nil || err2 != nil || i < 0 {
			continue
		}
		for len(numa) <= i {
			numa = append(numa, -1)
		}
		numa[i] = int64(n)
	}
	return Event{"cpu": int64(math.Round(num(p["cpu"]) * float64(base))), "mem": int64(num(p["memory"])),
		"cores": vec(asMap(p["cpu_map"]), ncore), "numamem": vec(asMap(p["numa_memory"]), nnuma), "numa": numa, "missing": false}
}

// projWl: a workload's cpumem resources -> {cpu (pieces), mem, cores[], numamem[], numanode}
func projWl(r resourcetypes.Resources, ncore, nnuma, base int) Event {
	p := asMap(r["cpumem"])
	if p == nil {
		return Event{"cpu": 0, "mem": 0, "cores": make([]int64, ncore), "numamem": make([]int64, nnuma), "numanode": ""}
	}
	nn, _ := p["numa_node"].(string)
	return Event{"cpu": int64(math.Round(num(p["cpu_request"]) * float64(base))), "mem": int64(num(p["memory_request"])),
		"cores": vec(asMap(p["cpu_map"]), ncore), "numamem": vec(asMap(p["numa_memory"]), nnuma), "numanode": nn,
		"bound": len(asMap(p["cpu_map"])) > 0}
}

// rawKeys reads keys below a prefix directly: resource records always live in etcd (plugin); metadata keys in
// etcd or, when the redis store is used, in miniredis (both stores share one key layout).
func (e *Env) rawKeys(prefix string) map[string]string {
	out := map[string]string{}
	if sharedRedis != nil && !strings.HasPrefix(prefix, "/resource/") {
		for _, k := range sharedRedis.Keys() {
			if strings.HasPrefix(k, prefix) {
				if v, err := sharedRedis.Get(k); err == nil {
					out[k] = v
				}
			}
		}
		return out
	}
	resp, err := e.etcdCli().Get(context.Background(), prefix, clientv3.WithPrefix())
	if err != nil {
		return out
	}
	for _, kv := range resp.Kvs {
		out[string(kv.Key)] = string(kv.Value)
	}
	return out
}

// Snapshot reads the whole observable state. nodeDims: node name -> (cores, numa nodes).
func (e *Env) Snapshot(dims map[string][2]int) Event {
	ctx := context.Background()
	base := e.Cfg.Scheduler.ShareBase
	snap := Event{"ev": "Snap"}
	pods := []string{}
	if ps, err := e.Raw.GetAllPods(ctx); err == nil {
		for _, p := range ps {
			pods = append(pods, p.Name)
		}
	}
	sort.Strings(pods)
	snap["pods"] = pods

	// nodes by raw key (a node whose pod is gone is still a node)
	nodeNames := []string{}
	nodePod := map[string]string{}
	for k, v := range e.rawKeys("/node/") {
		rest := strings.TrimPrefix(k, "/node/")
		if strings.Contains(rest, ":") {
			continue
		}
		n := &coretypes.Node{}
		if json.Unmarshal([]byte(v), n) == nil {
			nodeNames = append(nodeNames, n.Name)
			nodePod[n.Name] = n.Podname
		}
	}
	sort.Strings(nodeNames)
	resNodes := map[string]bool{}
	for k := range e.rawKeys("/resource/cpumem/") {
		resNodes[strings.TrimPrefix(k, "/resource/cpumem/")] = true
	}
	nodes := []Event{}
	recorded := map[string]bool{}
	for _, name := range nodeNames {
		d := dims[name]
		nd := Event{"name": name, "pod": nodePod[name], "hasres": resNodes[name], "podok": contains(pods, nodePod[name])}
		if n, err := e.Raw.GetNode(ctx, name); err == nil {
			nd["bypass"] = n.Bypass
		} else {
			nd["bypass"] = false
		}
		ws, lerr := e.Raw.ListNodeWorkloads(ctx, name, nil)
		nd["listerr"] = lerr != nil
		wls := []Event{}
		sort.Slice(ws, func(i, j int) bool { return ws[i].ID < ws[j].ID })
		for _, w := range ws {
			pw := projWl(w.Resources, d[0], d[1], base)
			pw["id"] = w.ID
			c := e.Eng.Get(w.ID)
			pw["container"] = c != nil && c.Node == name
			pw["running"] = c != nil && c.Running
			app, entry, _, _ := parseName(w.Name)
			pw["app"], pw["entry"] = app, entry
			wls = append(wls, pw)
			recorded[w.ID] = true
		}
		nd["wls"] = wls
		capR, useR, diffs, rerr := e.Rmgr.GetNodeResourceInfo(ctx, name, ws, false)
		nd["reserr"] = rerr != nil
		nd["cap"] = projRes(capR, d[0], d[1], base)
		nd["use"] = projRes(useR, d[0], d[1], base)
		nd["diffs"] = len(diffs)
		delete(resNodes, name)
		nodes = append(nodes, nd)
	}
	snap["nodes"] = nodes
	orphanRes := []string{}
	for n := range resNodes {
		orphanRes = append(orphanRes, n)
	}
	sort.Strings(orphanRes)
	snap["orphanres"] = orphanRes

	// workloads whose node is not recorded (they make ListWorkloads fail)
	orphanWls := []string{}
	allIDs := []string{}
	for k, v := range e.rawKeys("/workloads/") {
		w := &coretypes.Workload{}
		if json.Unmarshal([]byte(v), w) != nil {
			continue
		}
		id := strings.TrimPrefix(k, "/workloads/")
		allIDs = append(allIDs, id)
		if !contains(nodeNames, w.Nodename) {
			orphanWls = append(orphanWls, id)
		}
	}
	sort.Strings(orphanWls)
	snap["orphanwls"] = orphanWls
	_, lerr := e.Raw.ListWorkloads(ctx, "", "", "", 0, nil)
	snap["listallerr"] = lerr != nil

	proc := []Event{}
	pk := e.rawKeys("/processing/")
	keys := []string{}
	for k := range pk {
		keys = append(keys, k)
	}
	sort.Strings(keys)
	for _, k := range keys {
		parts := strings.Split(k, "/")
		cnt, _ := strconv.Atoi(pk[k])
		if len(parts) >= 6 {
			proc = append(proc, Event{"app": parts[2], "entry": parts[3], "node": parts[4], "ident": parts[5], "count": cnt})
		}
	}
	snap["proc"] = proc

	cs := e.Eng.Snapshot()
	for _, c := range cs {
		c["recorded"] = recorded[c["id"].(string)]
	}
	snap["containers"] = cs
	return snap
}

func contains(xs []string, x string) bool {
	for _, y := range xs {
		if x == y {
			return true
		}
	}
	return false
}

func parseName(name string) (string, string, string, error) {
	parts := strings.Split(strings.TrimLeft(name, "/"), "_")
	if len(parts) < 3 {
		return "", "", "", nil
	}
	n := len(parts)
	return strings.Join(parts[:n-2], "_"), parts[n-2], parts[n-1], nil
}
