package cluster

// Driver for C21 (node selection) and C20 (lock order of node-filtered operations): the universe
// of NodeSelect.tla is built once (test nodes through the API; real nodes - one down, one alive
// and bypassed, one alive - directly in store and plugin, because they have no reachable engine),
// then every TLC-enumerated filter is used in a CalculateCapacity call; the node set the resource
// manager is asked about (= the nodes handed to the locked callback) and the locks taken are logged.

import (
	"context"
	"sort"
	"testing"

	"github.com/projecteru2/core/strategy"
	coretypes "github.com/projecteru2/core/types"
	"verif/harness/vt"
)

type filterIn struct {
	Pod      string   `json:"pod"`
	Includes []string `json:"includes"`
	Excludes []string `json:"excludes"`
	Label    string   `json:"label"`
	All      bool     `json:"all"`
}

// labelSet: the label sets of NodeSelect.tla by code ("" none, "k" {k=v}, "m" {m=""}, "km" both, "k0" {k=""})
func labelSet(code string) map[string]string {
	switch code {
	case "k":
		return map[string]string{"k": "v"}
	case "m":
		return map[string]string{"m": ""}
	case "km":
		return map[string]string{"k": "v", "m": ""}
	case "k0":
		return map[string]string{"k": ""}
	}
	return map[string]string{}
}

func buildSelectUniverse(t *testing.T, e *Env) {
	ctx := Op("setup")
	must := func(err error) {
		if err != nil {
			t.Fatalf("universe: %v", err)
		}
	}
	_, err := e.Cal.AddPod(ctx, "p1", "")
	must(err)
	_, err = e.Cal.AddPod(ctx, "p2", "")
	must(err)
	res, _ := nodeResources("plain2")
	lab := labelSet
	for _, n := range []struct{ name, pod, lab string }{{"n1", "p1", "k"}, {"n2", "p1", ""}, {"n3", "p1", ""}, {"n2b", "p2", "k"}} {
		_, err := e.Cal.AddNode(ctx, &coretypes.AddNodeOptions{Nodename: n.name, Endpoint: "mock://" + n.name, Podname: n.pod, Resources: res, Labels: lab(n.lab)})
		must(err)
	}
	_, err = e.Cal.SetNode(ctx, &coretypes.SetNodeOptions{Nodename: "n3", Bypass: coretypes.TriTrue})
	must(err)
	// real (non-test) nodes: no engine behind them
	for _, n := range []struct {
		name, lab     string
		bypass, alive bool
	}{{"n4", "k", false, false}, {"n5", "m", true, true}, {"n6", "km", false, true}} {
		_, err := e.Rmgr.AddNode(ctx, n.name, res, nil)
		must(err)
		node, err := e.Raw.AddNode(ctx, &coretypes.AddNodeOptions{Nodename: n.name, Endpoint: "tcp://127.0.0.1:1", Podname: "p1", Labels: lab(n.lab)})
		must(err)
		if n.bypass {
			node.Bypass = true
			must(e.Raw.UpdateNodes(ctx, node))
		}
		if n.alive {
			must(e.Raw.SetNodeStatus(ctx, node, 36000))
		}
	}
}

func TestClusterSelect(t *testing.T) {
	out := vt.OpenTrace(t)
	defer out.Close()
	g := &Gate{}
	env := NewEnv(t, TempDir(t), g, nil)
	env.WipeStore()
	buildSelectUniverse(t, env)
	env.Quiesce(5e9)
	run := 0
	vt.EachInput(t, func(raw []byte) {
		var f filterIn
		vt.MustUnmarshal(t, raw, &f)
		run++
		g.Reset(0, 0)
		labels := labelSet(f.Label)
		opts := env.deployOpts("a", "p1", nil, strategy.Dummy, 1, 0, "u")
		opts.NodeFilter = &coretypes.NodeFilter{Podname: f.Pod, Includes: f.Includes, Excludes: f.Excludes, Labels: labels, All: f.All}
		msg, err := env.Cal.CalculateCapacity(Op("op"), opts)
		env.Quiesce(3e9)
		evs := g.Take()
		AnnotateLocks(evs)
		observed := []string{}
		asked := false
		for _, ev := range evs {
			if ev["ev"] == "Ext" && ev["target"] == "rmgr" && ev["method"] == "GetNodesDeployCapacity" {
				asked = true
				observed = append([]string{}, ev["argorder"].([]string)...)
			}
		}
		sort.Strings(observed)
		_ = msg
		out.Emit(Event{"ev": "Select", "run": run, "filter": f, "class": class2(err), "asked": asked, "observed": observed, "err": errText(err)})
		for _, ev := range evs {
			if ev["ev"] == "Ext" && ev["target"] == "lock" {
				ev["ev"] = "SelLock"
				out.Emit(ev)
			}
		}
	})
	t.Logf("filters: %d", run)
	_ = context.Background
}
