package pure

import (
	"context"
	"errors"
	"testing"
	"time"

	"github.com/projecteru2/core/utils"
	"verif/harness/vt"
)

var (
	errCond = errors.New("cond failed")
	errThen = errors.New("then failed")
	errRb   = errors.New("rollback failed")
)

// TestTxnReplay runs the real utils.Txn / utils.PCR on every combination of step outcomes and
// cancellation points (the behaviours of spec/Txn.tla) with scripted, logging steps.
func TestTxnReplay(t *testing.T) {
	out := vt.OpenTrace(t)
	defer out.Close()
	n := 0
	for _, form := range []string{"txn", "pcr"} {
		for _, cond := range []string{"ok", "fail"} {
			for _, then := range []string{"ok", "fail", "absent"} {
				for _, rb := range []string{"ok", "fail", "absent"} {
					if form == "pcr" && (then == "absent" || rb == "absent") {
						continue // PCR takes three mandatory functions
					}
					for _, at := range []string{"never", "pre", "inCond", "postCond", "inThen", "postThen", "inRb"} {
						runTxnCase(out, form, cond, then, rb, at)
						n++
					}
				}
			}
		}
	}
	t.Logf("txn cases: %d", n)
}

func runTxnCase(out *vt.Writer, form, cond, then, rb, at string) {
	out.Emit(map[string]any{"ev": "Case", "form": form, "cond": cond, "then": then, "rb": rb, "cancelAt": at})
	ctx, cancel := context.WithCancel(context.Background())
	defer cancel()
	doCancel := func(where string) {
		if at == where {
			cancel()
			out.Emit(map[string]any{"ev": "Cancel"})
		}
	}
	step := func(which, outcome string, e error, during, post string) func(context.Context, bool) error {
		return func(c context.Context, byCond bool) error {
			out.Emit(map[string]any{"ev": "Begin", "which": which, "sees": c.Err() != nil, "byCond": byCond})
			doCancel(during)
			out.Emit(map[string]any{"ev": "End", "which": which, "sees": c.Err() != nil})
			doCancel(post)
			if outcome == "fail" {
				return e
			}
			return nil
		}
	}
	condF := step("cond", cond, errCond, "inCond", "postCond")
	thenF := step("then", then, errThen, "inThen", "postThen")
	rbF := step("rollback", rb, errRb, "inRb", "")
	doCancel("pre")
	var err error
	if form == "txn" {
		var tf func(context.Context) error
		if then != "absent" {
			tf = func(c context.Context) error { return thenF(c, false) }
		}
		var rf func(context.Context, bool) error
		if rb != "absent" {
			rf = rbF
		}
		err = utils.Txn(ctx, func(c context.Context) error { return condF(c, false) }, tf, rf, time.Minute)
	} else {
		err = utils.PCR(ctx, func(c context.Context) error { return condF(c, false) },
			func(c context.Context) error { return thenF(c, false) },
			func(c context.Context) error { return rbF(c, false) }, time.Minute)
	}
	r := "other"
	switch {
	case err == nil:
		r = "none"
	case errors.Is(err, errCond):
		r = "cond"
	case errors.Is(err, errThen):
		r = "then"
	case errors.Is(err, errRb):
		r = "rollback"
	}
	out.Emit(map[string]any{"ev": "Return", "err": r})
}
