package pure

import (
	"context"
	"encoding/json"
	"io"
	"math/rand"
	"net/http"
	"net/http/httptest"
	"regexp"
	"sort"
	"strconv"
	"strings"
	"sync"
	"testing"

	"github.com/projecteru2/core/engine/docker"
	enginetypes "github.com/projecteru2/core/engine/types"
	resourcetypes "github.com/projecteru2/core/resource/types"
	coretypes "github.com/projecteru2/core/types"
	"verif/harness/vt"
)

// fakeDockerd: the few Docker Engine API endpoints the create / update paths use; it records
// the resource settings it is sent.
type fakeDockerd struct {
	mu   sync.Mutex
	last map[string]any
	ncpu int
}

var reCreate = regexp.MustCompile(`/containers/create$`)
var reUpdate = regexp.MustCompile(`/containers/[^/]+/update$`)

func (f *fakeDockerd) ServeHTTP(w http.ResponseWriter, r *http.Request) {
	w.Header().Set("Content-Type", "application/json")
	body, _ := io.ReadAll(r.Body)
	switch {
	case strings.HasSuffix(r.URL.Path, "/_ping"):
		w.Header().Set("API-Version", "1.41")
		w.Write([]byte("OK"))
	case strings.HasSuffix(r.URL.Path, "/info"):
		json.NewEncoder(w).Encode(map[string]any{"ID": "fake", "NCPU": f.ncpu, "MemTotal": int64(8) << 30})
	case reCreate.MatchString(r.URL.Path):
		var req struct {
			HostConfig map[string]any
		}
		json.Unmarshal(body, &req)
		f.mu.Lock()
		f.last = req.HostConfig
		f.mu.Unlock()
		w.WriteHeader(201)
		json.NewEncoder(w).Encode(map[string]any{"Id": "c0ffee", "Warnings": []string{}})
	case reUpdate.MatchString(r.URL.Path):
		var req map[string]any
		json.Unmarshal(body, &req)
		f.mu.Lock()
		f.last = req
		f.mu.Unlock()
		json.NewEncoder(w).Encode(map[string]any{"Warnings": []string{}})
	default:
		w.WriteHeader(404)
		w.Write([]byte(`{"message":"not implemented in fake dockerd"}`))
	}
}

type engParams struct {
	Cpu100 int    `json:"cpu100"`
	Cores  []bool `json:"cores"`
	Numa   int    `json:"numa"`
	MemMiB int64  `json:"memMiB"`
	Remap  bool   `json:"remap"`
}

func num(m map[string]any, k string) int64 {
	if v, ok := m[k].(float64); ok {
		return int64(v)
	}
	return 0
}

func memMiB(m map[string]any, k string) int64 {
	v, _ := m[k].(float64)
	if v >= 4e18 {
		return -1
	}
	b := int64(v)
	if b%(1<<20) != 0 {
		return -2
	}
	return b >> 20
}

func TestEngineReplay(t *testing.T) {
	out := vt.OpenTrace(t)
	defer out.Close()
	fd := &fakeDockerd{ncpu: 3}
	srv := httptest.NewServer(fd)
	defer srv.Close()
	cfg := coretypes.Config{Docker: coretypes.DockerConfig{APIVersion: "1.41"}, Scheduler: coretypes.SchedulerConfig{ShareBase: 100, MaxShare: -1}}
	eng, err := docker.MakeClient(context.Background(), cfg, "n1", "tcp://"+strings.TrimPrefix(srv.URL, "http://"), "", "", "")
	if err != nil {
		t.Fatal(err)
	}
	n := 0
	runOne := func(op string, p engParams) {
		raw := resourcetypes.RawParams{"cpu": float64(p.Cpu100) / 100, "memory": p.MemMiB << 20, "remap": p.Remap}
		cm := map[string]int64{}
		for i, on := range p.Cores {
			if on {
				cm[strconv.Itoa(i)] = 100
			}
		}
		if len(cm) > 0 {
			raw["cpu_map"] = cm
		}
		if p.Numa > 0 {
			raw["numa_node"] = strconv.Itoa(p.Numa - 1)
		}
		ep := resourcetypes.Resources{"cpumem": raw}
		fd.mu.Lock()
		fd.last = nil
		fd.mu.Unlock()
		var err error
		if op == "create" {
			_, err = eng.VirtualizationCreate(context.Background(), &enginetypes.VirtualizationCreateOptions{
				EngineParams: ep, Name: "w", Image: "img", Cmd: []string{"true"}, User: "root", LogType: "none", Networks: map[string]string{"host": ""},
			})
		} else {
			err = eng.VirtualizationUpdateResource(context.Background(), "c0ffee", ep)
		}
		class := "ok"
		if err != nil {
			class = "error"
		}
		fd.mu.Lock()
		last := fd.last
		fd.mu.Unlock()
		res := map[string]any{"quota": 0, "period": 0, "shares": 0, "cpuset": make([]bool, len(p.Cores)), "mems": 0, "memMiB": 0, "swapMiB": 0}
		if last == nil {
			if class == "ok" {
				class = "nocall"
			}
		} else {
			set := make([]bool, len(p.Cores))
			extra := 0
			if s, _ := last["CpusetCpus"].(string); s != "" {
				ids := strings.Split(s, ",")
				sort.Strings(ids)
				for _, id := range ids {
					i, err := strconv.Atoi(id)
					if err != nil || i < 0 || i >= len(set) {
						extra++
						continue
					}
					set[i] = true
				}
			}
			mems := 0
			if s, _ := last["CpusetMems"].(string); s != "" {
				if j, err := strconv.Atoi(s); err == nil {
					mems = j + 1
				} else {
					mems = -1
				}
			}
			if extra > 0 {
				mems = -1
			}
			res = map[string]any{"quota": num(last, "CpuQuota"), "period": num(last, "CpuPeriod"), "shares": num(last, "CpuShares"),
				"cpuset": set, "mems": mems, "memMiB": memMiB(last, "Memory"), "swapMiB": memMiB(last, "MemorySwap")}
		}
		out.Emit(map[string]any{"ev": "Engine", "op": op, "p": p, "class": class, "res": res})
		n++
	}
	vt.EachInput(t, func(raw []byte) {
		var in struct {
			Op string    `json:"op"`
			P  engParams `json:"p"`
		}
		vt.MustUnmarshal(t, raw, &in)
		runOne(in.Op, in.P)
	})
	rng := rand.New(rand.NewSource(vt.Seed()))
	for i := 0; i < vt.EnvInt("VERIF_RANDOM", 0); i++ {
		p := engParams{Cpu100: rng.Intn(400), Cores: []bool{rng.Intn(2) == 0, rng.Intn(2) == 0, rng.Intn(2) == 0}, MemMiB: []int64{0, 4, 64, 1000}[rng.Intn(4)], Remap: rng.Intn(3) == 0}
		any := p.Cores[0] || p.Cores[1] || p.Cores[2]
		if any {
			p.Numa = rng.Intn(2)
			if !p.Remap && p.Cpu100 == 0 {
				p.Cpu100 = 1 + rng.Intn(300)
			}
		}
		op := []string{"create", "update"}[rng.Intn(2)]
		if op == "create" {
			p.Remap = false
			if any && p.Cpu100 == 0 {
				p.Cpu100 = 100
			}
		}
		runOne(op, p)
	}
	t.Logf("engine cases: %d", n)
}
