package pure

import (
	"context"
	"errors"
	"math"
	"math/rand"
	"testing"

	"github.com/projecteru2/core/strategy"
	"github.com/projecteru2/core/types"
	"verif/harness/vt"
)

type sInfo struct {
	Cap   int `json:"cap"`
	Count int `json:"count"`
	U     int `json:"u"`
	R     int `json:"r"`
}

type sInput struct {
	S     string  `json:"s"`
	Infos []sInfo `json:"infos"`
	Need  int     `json:"need"`
	Limit int     `json:"limit"`
}

func realCap(c int) int {
	if c < 0 || c >= 1000000 {
		return math.MaxInt
	}
	return c
}

func jsonCap(c int) int {
	if c == math.MaxInt {
		return -1
	}
	return c
}

func runStrategy(in sInput, out *vt.Writer) {
	names := make([]string, len(in.Infos))
	infos := make([]strategy.Info, len(in.Infos))
	total := 0
	evInfos := make([]sInfo, len(in.Infos))
	for i, x := range in.Infos {
		names[i] = "n" + string(rune('a'+i%26)) + string(rune('0'+i/26))
		c := realCap(x.Cap)
		infos[i] = strategy.Info{Nodename: names[i], Capacity: c, Count: x.Count, Usage: float64(x.U) / 4, Rate: float64(x.R) / 4}
		if c == math.MaxInt || total == math.MaxInt {
			total = math.MaxInt
		} else {
			total += c
		}
		evInfos[i] = sInfo{Cap: jsonCap(c), Count: x.Count, U: x.U, R: x.R}
	}
	plan, err := strategy.Deploy(context.Background(), in.S, in.Need, in.Limit, infos, total)
	class := "plan"
	switch {
	case err == nil:
	case errors.Is(err, types.ErrInsufficientResource), errors.Is(err, types.ErrInsufficientCapacity):
		class = "insufficient"
	case errors.Is(err, types.ErrAlreadyFilled):
		class = "filled"
	case errors.Is(err, types.ErrInvaildDeployCount), errors.Is(err, types.ErrInvaildDeployStrategy):
		class = "invalid"
	default:
		class = "other"
	}
	p := make([]int, len(names))
	seen := 0
	for i, n := range names {
		if v, ok := plan[n]; ok {
			p[i] = v
			seen++
		} else {
			p[i] = -1
		}
	}
	out.Emit(map[string]any{
		"ev": "Deploy", "s": in.S, "infos": evInfos, "need": in.Need, "total": jsonCap(total),
		"limit": in.Limit, "class": class, "plan": p, "extra": len(plan) - seen,
	})
}

// TestStrategyReplay: run the real strategy.Deploy on every TLC-enumerated input
// (VERIF_INPUTS, ndjson) plus VERIF_RANDOM seeded random larger inputs.
func TestStrategyReplay(t *testing.T) {
	out := vt.OpenTrace(t)
	defer out.Close()
	n := 0
	vt.EachInput(t, func(raw []byte) {
		var in sInput
		vt.MustUnmarshal(t, raw, &in)
		runStrategy(in, out)
		n++
	})
	rng := rand.New(rand.NewSource(vt.Seed()))
	strats := []string{"AUTO", "GLOBAL", "DRAINED", "EACH", "FILL"}
	for i := 0; i < vt.EnvInt("VERIF_RANDOM", 0); i++ {
		in := sInput{S: strats[rng.Intn(len(strats))], Need: 1 + rng.Intn(40), Limit: rng.Intn(6)}
		if rng.Intn(3) == 0 {
			in.Limit = 0
		}
		k := 1 + rng.Intn(12)
		for j := 0; j < k; j++ {
			c := rng.Intn(20)
			if rng.Intn(8) == 0 {
				c = -1
			}
			in.Infos = append(in.Infos, sInfo{Cap: c, Count: rng.Intn(8), U: rng.Intn(9), R: 1 + rng.Intn(4)})
		}
		runStrategy(in, out)
		n++
	}
	t.Logf("strategy cases: %d", n)
}
