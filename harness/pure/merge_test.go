package pure

import (
	"context"
	"fmt"
	"math"
	"testing"

	"github.com/projecteru2/core/resource/cobalt"
	"github.com/projecteru2/core/resource/plugins"
	plugintypes "github.com/projecteru2/core/resource/plugins/types"
	coretypes "github.com/projecteru2/core/types"
	"verif/harness/vt"
)

type mNode struct {
	Off bool `json:"off"`
	Cap int  `json:"cap"`
	U   int  `json:"u"`
	R   int  `json:"r"`
}
type mAns struct {
	W     int     `json:"w"`
	Nodes []mNode `json:"nodes"`
}

// fakePlugin answers GetNodesDeployCapacity from a scripted table; every other method is unused.
type fakePlugin struct {
	plugins.Plugin
	name string
	ans  mAns
}

func (f *fakePlugin) Name() string { return f.name }
func (f *fakePlugin) GetNodesDeployCapacity(_ context.Context, nodenames []string, _ plugintypes.WorkloadResourceRequest) (*plugintypes.GetNodesDeployCapacityResponse, error) {
	resp := &plugintypes.GetNodesDeployCapacityResponse{NodeDeployCapacityMap: map[string]*plugintypes.NodeDeployCapacity{}}
	for i, n := range nodenames {
		a := f.ans.Nodes[i]
		if !a.Off {
			continue
		}
		c := a.Cap
		if c < 0 {
			c = math.MaxInt
		}
		resp.NodeDeployCapacityMap[n] = &plugintypes.NodeDeployCapacity{Capacity: c, Usage: float64(a.U) / 4, Rate: float64(a.R) / 4, Weight: float64(f.ans.W)}
		if resp.Total == math.MaxInt || c == math.MaxInt {
			resp.Total = math.MaxInt
		} else {
			resp.Total += c
		}
	}
	return resp, nil
}

func permutations(n int) [][]int {
	if n == 1 {
		return [][]int{{0}}
	}
	out := [][]int{}
	for _, p := range permutations(n - 1) {
		for i := 0; i <= len(p); i++ {
			q := append(append(append([]int{}, p[:i]...), n-1), p[i:]...)
			out = append(out, q)
		}
	}
	return out
}

// TestMergeReplay: every TLC-enumerated set of plugin answers, in every registration order and
// several repetitions (the manager folds a Go map), through the real cobalt.Manager.
func TestMergeReplay(t *testing.T) {
	out := vt.OpenTrace(t)
	defer out.Close()
	reps := vt.EnvInt("VERIF_REPS", 3)
	n := 0
	vt.EachInput(t, func(raw []byte) {
		var ans []mAns
		vt.MustUnmarshal(t, raw, &ans)
		names := []string{}
		for i := range ans[0].Nodes {
			names = append(names, fmt.Sprintf("n%d", i))
		}
		for _, perm := range permutations(len(ans)) {
			m, _ := cobalt.New(coretypes.Config{})
			order := []int{}
			for _, pi := range perm {
				m.AddPlugins(&fakePlugin{name: fmt.Sprintf("p%d", pi), ans: ans[pi]})
				order = append(order, pi+1)
			}
			for r := 0; r < reps; r++ {
				res, total, err := m.GetNodesDeployCapacity(context.Background(), names, nil)
				class := "ok"
				if err != nil {
					class = "error"
				}
				result := []map[string]any{}
				for _, nm := range names {
					if v, ok := res[nm]; ok {
						c := v.Capacity
						if c == math.MaxInt {
							c = -1
						}
						result = append(result, map[string]any{"off": true, "cap": c, "u6": f6(v.Usage), "r6": f6(v.Rate)})
					} else {
						result = append(result, map[string]any{"off": false, "cap": 0, "u6": 0, "r6": 0})
					}
				}
				tt := total
				if tt == math.MaxInt {
					tt = -1
				}
				out.Emit(map[string]any{"ev": "Merge", "ans": ans, "order": order, "class": class, "result": result, "total": tt, "extra": len(res) - countOff(result)})
				n++
			}
		}
	})
	t.Logf("merge cases: %d", n)
}

func f6(x float64) int {
	if math.IsNaN(x) || math.IsInf(x, 0) || math.Abs(x) > 1000 {
		return -1000000000 // out of range: never equal to an expected value
	}
	return int(math.Round(x * 1e6))
}

func countOff(r []map[string]any) int {
	n := 0
	for _, x := range r {
		if x["off"].(bool) {
			n++
		}
	}
	return n
}
