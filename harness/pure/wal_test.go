package pure

import (
	"context"
	"encoding/json"
	"errors"
	"fmt"
	"io"
	"math/rand"
	"os"
	"path/filepath"
	"strconv"
	"strings"
	"sync"
	"testing"
	"time"

	"github.com/projecteru2/core/wal"
	"github.com/projecteru2/core/wal/kv"
	"verif/harness/vt"
)

type walItem struct {
	Tag  string   `json:"tag"`
	Plan []string `json:"plan"`
}

type walOp struct {
	Op   string   `json:"op"`
	Type string   `json:"type"`
	Plan []string `json:"plan"`
	Slot int      `json:"slot"`
}

// scripted handler: answers by the event's own plan and the number of recoveries that examined it
type walHandler struct {
	typ string
	env *walEnv
}

type emitter interface{ Emit(map[string]any) }

// bufEmitter collects one history's events so that parallel histories stay contiguous in the trace
type bufEmitter struct {
	mu  sync.Mutex
	evs []map[string]any
}

func (b *bufEmitter) Emit(ev map[string]any) { b.mu.Lock(); b.evs = append(b.evs, ev); b.mu.Unlock() }

type walEnv struct {
	out  emitter
	mu   sync.Mutex
	seen map[string]int
	ans  map[string]string // answer chosen at Decode for this recovery
}

func (h *walHandler) Typ() string                  { return h.typ }
func (h *walHandler) Encode(x any) ([]byte, error) { return json.Marshal(x) }
func (h *walHandler) Decode(b []byte) (any, error) {
	var it walItem
	if err := json.Unmarshal(b, &it); err != nil {
		return nil, err
	}
	e := h.env
	e.mu.Lock()
	n := e.seen[it.Tag]
	e.seen[it.Tag] = n + 1
	if n >= len(it.Plan) {
		n = len(it.Plan) - 1
	}
	a := it.Plan[n]
	if a == "err" && e.seen[it.Tag]%2 == 0 {
		a = "checkErr"
	}
	e.ans[it.Tag] = a
	e.mu.Unlock()
	rep := a
	if rep == "checkErr" {
		rep = "err"
	}
	e.out.Emit(map[string]any{"ev": "Examined", "tag": it.Tag, "ans": rep, "type": h.typ})
	if a == "decodeErr" {
		return nil, errors.New("scripted decode error")
	}
	return &it, nil
}
func (h *walHandler) Check(_ context.Context, x any) (bool, error) {
	it := x.(*walItem)
	h.env.out.Emit(map[string]any{"ev": "Called", "what": "check", "tag": it.Tag})
	switch h.env.ans[it.Tag] {
	case "checkErr":
		return false, errors.New("scripted check error")
	case "notNeeded":
		return false, nil
	}
	return true, nil
}
func (h *walHandler) Handle(_ context.Context, x any) error {
	it := x.(*walItem)
	h.env.out.Emit(map[string]any{"ev": "Called", "what": "handle", "tag": it.Tag})
	if h.env.ans[it.Tag] == "err" {
		return errors.New("scripted handle error")
	}
	return nil
}

func scanWal(path string) []map[string]any {
	cp := path + ".copy"
	src, err := os.Open(path)
	if err != nil {
		panic(err)
	}
	dst, _ := os.Create(cp)
	io.Copy(dst, src)
	src.Close()
	dst.Close()
	defer os.Remove(cp)
	l := kv.NewLithium()
	if err := l.Open(cp, 0600, time.Second); err != nil {
		panic(err)
	}
	defer l.Close()
	ch, _ := l.Scan([]byte("/events/"))
	ids := []map[string]any{}
	for ent := range ch {
		k, v := ent.Pair()
		var ev struct {
			Type string `json:"type"`
			Item []byte `json:"item"`
		}
		json.Unmarshal(v, &ev)
		var it walItem
		json.Unmarshal(ev.Item, &it)
		id, _ := strconv.ParseUint(strings.TrimPrefix(string(k), "/events/"), 16, 64)
		ids = append(ids, map[string]any{"id": id, "type": ev.Type, "tag": it.Tag})
	}
	return ids
}

func runWalHistory(t *testing.T, out emitter, run int, ops []walOp, dir string) {
	path := filepath.Join(dir, fmt.Sprintf("wal-%d.db", run))
	defer os.Remove(path)
	env := &walEnv{out: out, seen: map[string]int{}, ans: map[string]string{}}
	open := func() *wal.Hydro {
		h, err := wal.NewHydro(path, time.Second)
		if err != nil {
			t.Fatal(err)
		}
		for _, ty := range []string{"tA", "tB", "tU"} {
			h.Register(&walHandler{typ: ty, env: env})
		}
		return h
	}
	h := open()
	defer func() { h.Close() }()
	out.Emit(map[string]any{"ev": "Start", "run": run})
	commits := map[string]wal.Commit{}
	epoch := map[string]int{}
	curEpoch := 0
	seq := 0
	for _, op := range ops {
		ev := map[string]any{"ev": "Op", "op": op.Op, "type": op.Type, "tag": "", "class": "ok", "n": 0}
		switch op.Op {
		case "log":
			seq++
			tag := fmt.Sprintf("e%d", seq)
			ev["tag"] = tag
			out.Emit(ev)
			c, err := h.Log(op.Type, &walItem{Tag: tag, Plan: op.Plan})
			if err != nil {
				out.Emit(map[string]any{"ev": "OpFailed", "err": err.Error()})
			} else {
				commits[tag], epoch[tag] = c, curEpoch
			}
		case "commit":
			live := scanWal(path)
			if op.Slot > len(live) {
				ev["class"] = "skip"
				out.Emit(ev)
				break
			}
			tag := live[op.Slot-1]["tag"].(string)
			if epoch[tag] != curEpoch || commits[tag] == nil {
				ev["class"] = "skip" // the commit handle died with the previous process
				out.Emit(ev)
				break
			}
			ev["tag"] = tag
			out.Emit(ev)
			if err := commits[tag](); err != nil {
				out.Emit(map[string]any{"ev": "OpFailed", "err": err.Error()})
			}
			delete(commits, tag)
		case "reopen":
			out.Emit(ev)
			h.Close()
			curEpoch++
			h = open()
		case "recover":
			out.Emit(ev)
			h.Map.Del("tU") // events of type tU have no handler at recovery time
			h.Recover(context.Background())
			h.Register(&walHandler{typ: "tU", env: env})
		case "conclog":
			G, M := 4, op.Slot
			ev["n"] = G * M
			out.Emit(ev)
			var wg sync.WaitGroup
			for g := 0; g < G; g++ {
				wg.Add(1)
				go func(g int) {
					defer wg.Done()
					for i := 0; i < M; i++ {
						tag := fmt.Sprintf("c%d-%d-%d", seq, g, i)
						if _, err := h.Log("tA", &walItem{Tag: tag, Plan: []string{"ok"}}); err != nil {
							out.Emit(map[string]any{"ev": "OpFailed", "err": err.Error()})
						}
					}
				}(g)
			}
			wg.Wait()
			seq++
		}
		out.Emit(map[string]any{"ev": "Scan", "ids": scanWal(path)})
	}
}

// TestWalReplay replays TLC-generated log/commit/reopen/recover histories on a real Hydro + bbolt file.
func TestWalReplay(t *testing.T) {
	out := vt.OpenTrace(t)
	defer out.Close()
	dir := t.TempDir()
	if st, err := os.Stat("/dev/shm"); err == nil && st.IsDir() {
		if d, err := os.MkdirTemp("/dev/shm", "verif-wal-"); err == nil {
			dir = d
			defer os.RemoveAll(d)
		}
	}
	type job struct {
		run int
		ops []walOp
	}
	ch := make(chan job, 64)
	var wg sync.WaitGroup
	var flush sync.Mutex
	for w := 0; w < vt.EnvInt("VERIF_PAR", 8); w++ {
		wg.Add(1)
		go func() {
			defer wg.Done()
			for j := range ch {
				b := &bufEmitter{}
				runWalHistory(t, b, j.run, j.ops, dir)
				flush.Lock()
				for _, ev := range b.evs {
					out.Emit(ev)
				}
				flush.Unlock()
			}
		}()
	}
	run := 0
	vt.EachInput(t, func(raw []byte) {
		var in struct {
			Ops []walOp `json:"ops"`
		}
		vt.MustUnmarshal(t, raw, &in)
		run++
		ch <- job{run, in.Ops}
	})
	rng := rand.New(rand.NewSource(vt.Seed()))
	plans := [][]string{{"ok"}, {"err", "ok"}, {"notNeeded"}, {"decodeErr", "decodeErr"}, {"err", "err", "ok"}, {"decodeErr", "ok"}}
	for i := 0; i < vt.EnvInt("VERIF_RANDOM", 0); i++ {
		ops := []walOp{}
		for j := 0; j < 6+rng.Intn(10); j++ {
			switch r := rng.Intn(12); {
			case r < 5:
				ops = append(ops, walOp{Op: "log", Type: []string{"tA", "tB", "tU"}[rng.Intn(3)], Plan: plans[rng.Intn(len(plans))]})
			case r < 7:
				ops = append(ops, walOp{Op: "commit", Slot: 1 + rng.Intn(3)})
			case r < 8:
				ops = append(ops, walOp{Op: "reopen"})
			case r < 9:
				ops = append(ops, walOp{Op: "conclog", Slot: 5 + rng.Intn(20)})
			default:
				ops = append(ops, walOp{Op: "recover"})
			}
		}
		run++
		ch <- job{run, ops}
	}
	close(ch)
	wg.Wait()
	t.Logf("wal histories: %d", run)
}
