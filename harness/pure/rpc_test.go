package pure

import (
	"context"
	"fmt"
	"net"
	"sync"
	"testing"
	"time"

	"github.com/projecteru2/core/auth"
	"github.com/projecteru2/core/client/interceptor"
	pb "github.com/projecteru2/core/rpc/gen"
	coretypes "github.com/projecteru2/core/types"
	"google.golang.org/grpc"
	"google.golang.org/grpc/codes"
	"google.golang.org/grpc/credentials/insecure"
	"google.golang.org/grpc/status"
	"google.golang.org/grpc/test/bufconn"
	"verif/harness/vt"
)

type life struct {
	Msgs int    `json:"msgs"`
	End  string `json:"end"` // err | eof | srvcancel
}

// scriptedCore: a CoreRPC server whose watch streams follow a script of "lives".
type scriptedCore struct {
	pb.UnimplementedCoreRPCServer
	mu      sync.Mutex
	lives   []life
	streams int      // server-side streams opened
	reqs    []string // request fingerprints received
	infos   int
}

func (s *scriptedCore) Info(context.Context, *pb.Empty) (*pb.CoreInfo, error) {
	s.mu.Lock()
	s.infos++
	s.mu.Unlock()
	return &pb.CoreInfo{Version: "verif"}, nil
}

func (s *scriptedCore) next(req string) (int, life, bool) {
	s.mu.Lock()
	defer s.mu.Unlock()
	i := s.streams
	s.streams++
	s.reqs = append(s.reqs, req)
	if i >= len(s.lives) {
		return i, life{}, false
	}
	return i, s.lives[i], true
}

func endOf(l life) error {
	switch l.End {
	case "eof":
		return nil
	case "srvcancel": // the SERVER ends the stream with status Canceled (e.g. a handler returning its own context error); the caller is still there
		return status.Error(codes.Canceled, "scripted server-side cancel")
	}
	return status.Error(codes.Unavailable, "scripted break")
}

func (s *scriptedCore) WorkloadStatusStream(opts *pb.WorkloadStatusStreamOptions, stream pb.CoreRPC_WorkloadStatusStreamServer) error {
	i, l, ok := s.next(opts.Appname + "/" + opts.Entrypoint + "/" + opts.Nodename)
	if !ok {
		return status.Error(codes.Unavailable, "script exhausted")
	}
	for j := 0; j < l.Msgs; j++ {
		if err := stream.Send(&pb.WorkloadStatusStreamMessage{Id: fmt.Sprintf("L%dM%d", i+1, j+1)}); err != nil {
			return err
		}
	}
	return endOf(l)
}

func (s *scriptedCore) WatchServiceStatus(_ *pb.Empty, stream pb.CoreRPC_WatchServiceStatusServer) error {
	i, l, ok := s.next("empty")
	if !ok {
		return status.Error(codes.Unavailable, "script exhausted")
	}
	for j := 0; j < l.Msgs; j++ {
		if err := stream.Send(&pb.ServiceStatus{Addresses: []string{fmt.Sprintf("L%dM%d", i+1, j+1)}}); err != nil {
			return err
		}
	}
	return endOf(l)
}

func (s *scriptedCore) ListPodNodes(opts *pb.ListNodesOptions, stream pb.CoreRPC_ListPodNodesServer) error {
	i, l, ok := s.next(opts.Podname)
	if !ok {
		return status.Error(codes.Unavailable, "script exhausted")
	}
	for j := 0; j < l.Msgs; j++ {
		if err := stream.Send(&pb.Node{Name: fmt.Sprintf("L%dM%d", i+1, j+1)}); err != nil {
			return err
		}
	}
	return endOf(l)
}

type rpcEnv struct {
	srv  *grpc.Server
	lis  *bufconn.Listener
	core *scriptedCore
}

func startRPC(core *scriptedCore, authCfg *coretypes.AuthConfig) *rpcEnv {
	lis := bufconn.Listen(1 << 20)
	opts := []grpc.ServerOption{}
	if authCfg != nil { // exactly what core.go does when auth is configured
		a := auth.NewAuth(*authCfg)
		opts = append(opts, grpc.StreamInterceptor(a.StreamInterceptor), grpc.UnaryInterceptor(a.UnaryInterceptor))
	}
	srv := grpc.NewServer(opts...)
	pb.RegisterCoreRPCServer(srv, core)
	go srv.Serve(lis)
	return &rpcEnv{srv: srv, lis: lis, core: core}
}

func (e *rpcEnv) dial(extra ...grpc.DialOption) (*grpc.ClientConn, error) {
	opts := append([]grpc.DialOption{
		grpc.WithContextDialer(func(ctx context.Context, _ string) (net.Conn, error) { return e.lis.DialContext(ctx) }),
		grpc.WithTransportCredentials(insecure.NewCredentials()),
	}, extra...)
	return grpc.Dial("passthrough:///bufnet", opts...)
}

func codeOf(err error) string {
	if err == nil {
		return "OK"
	}
	return status.Code(err).String()
}

// ---------------------------------------------------------------- C35
type authIn struct {
	SrvU string `json:"srvU"`
	SrvP string `json:"srvP"`
	CliU string `json:"cliU"`
	CliP string `json:"cliP"`
}

func TestAuthReplay(t *testing.T) {
	out := vt.OpenTrace(t)
	defer out.Close()
	n := 0
	vt.EachInput(t, func(raw []byte) {
		var in authIn
		vt.MustUnmarshal(t, raw, &in)
		core := &scriptedCore{lives: []life{{Msgs: 1, End: "eof"}}}
		env := startRPC(core, &coretypes.AuthConfig{Username: in.SrvU, Password: in.SrvP})
		defer env.srv.Stop()
		conn, err := env.dial(grpc.WithPerRPCCredentials(auth.NewCredential(coretypes.AuthConfig{Username: in.CliU, Password: in.CliP})))
		if err != nil {
			t.Fatal(err)
		}
		defer conn.Close()
		cli := pb.NewCoreRPCClient(conn)
		ctx, cancel := context.WithTimeout(context.Background(), 10*time.Second)
		defer cancel()
		_, uerr := cli.Info(ctx, &pb.Empty{})
		scode := "OK"
		st, serr := cli.WatchServiceStatus(ctx, &pb.Empty{})
		if serr == nil {
			_, serr = st.Recv()
		}
		if serr != nil {
			scode = codeOf(serr)
		}
		core.mu.Lock()
		served := map[string]any{"unary": core.infos, "stream": core.streams}
		core.mu.Unlock()
		out.Emit(map[string]any{"ev": "Auth", "in": in, "unary": codeOf(uerr), "stream": scode, "served": served})
		n++
	})
	t.Logf("auth cases: %d", n)
}

// ---------------------------------------------------------------- C36
type retryIn struct {
	Method   string `json:"method"` // wss | watch | list
	Lives    []life `json:"lives"`
	Max      int    `json:"max"`
	CancelAt int    `json:"cancelAt"` // cancel after this many delivered messages; -1 = never
}

func runRetry(in retryIn) map[string]any {
	core := &scriptedCore{lives: in.Lives}
	env := startRPC(core, nil)
	defer env.srv.Stop()
	conn, err := env.dial(grpc.WithStreamInterceptor(interceptor.NewStreamRetry(interceptor.RetryOptions{Max: in.Max})))
	if err != nil {
		return map[string]any{"ev": "Crash", "kind": "dial"}
	}
	defer conn.Close()
	cli := pb.NewCoreRPCClient(conn)
	ctx, cancel := context.WithTimeout(context.Background(), 60*time.Second)
	defer cancel()
	var recv func() (string, error)
	var openErr error
	switch in.Method {
	case "wss":
		st, err := cli.WorkloadStatusStream(ctx, &pb.WorkloadStatusStreamOptions{Appname: "app", Entrypoint: "web", Nodename: "n1"})
		openErr = err
		recv = func() (string, error) {
			m, err := st.Recv()
			if err != nil {
				return "", err
			}
			return m.Id, nil
		}
	case "watch":
		st, err := cli.WatchServiceStatus(ctx, &pb.Empty{})
		openErr = err
		recv = func() (string, error) {
			m, err := st.Recv()
			if err != nil {
				return "", err
			}
			return m.Addresses[0], nil
		}
	default:
		st, err := cli.ListPodNodes(ctx, &pb.ListNodesOptions{Podname: "pod"})
		openErr = err
		recv = func() (string, error) {
			m, err := st.Recv()
			if err != nil {
				return "", err
			}
			return m.Name, nil
		}
	}
	delivered := [][2]int{}
	final := "OK"
	streamsAtCancel := -1
	if openErr != nil {
		final = codeOf(openErr)
	} else {
		for {
			if in.CancelAt >= 0 && len(delivered) == in.CancelAt && streamsAtCancel < 0 {
				// let the call the client has already made reach the server (on a loaded machine the stream may not
				// have been opened there yet: that opening is not a retry) and the server send what it will, then cancel
				for w := 0; w < 500; w++ {
					core.mu.Lock()
					opened := core.streams
					core.mu.Unlock()
					if opened >= 1 {
						break
					}
					time.Sleep(10 * time.Millisecond)
				}
				time.Sleep(30 * time.Millisecond)
				core.mu.Lock()
				streamsAtCancel = core.streams
				core.mu.Unlock()
				cancel()
			}
			id, err := recv()
			if err != nil {
				final = codeOf(err)
				if err.Error() == "EOF" {
					final = "EOF"
				}
				break
			}
			var a, b int
			fmt.Sscanf(id, "L%dM%d", &a, &b)
			delivered = append(delivered, [2]int{a, b})
			if len(delivered) > 50 {
				final = "runaway"
				break
			}
		}
	}
	time.Sleep(150 * time.Millisecond) // a retry after cancellation would open its stream at once
	core.mu.Lock()
	streams, reqs := core.streams, append([]string{}, core.reqs...)
	core.mu.Unlock()
	return map[string]any{"ev": "Retry", "in": in, "delivered": delivered, "final": final, "serverStreams": streams, "requests": reqs, "streamsAtCancel": streamsAtCancel}
}

func TestRetryReplay(t *testing.T) {
	out := vt.OpenTrace(t)
	defer out.Close()
	ch := make(chan retryIn, 64)
	var wg sync.WaitGroup
	n := 0
	var mu sync.Mutex
	for w := 0; w < vt.EnvInt("VERIF_PAR", 32); w++ {
		wg.Add(1)
		go func() {
			defer wg.Done()
			for in := range ch {
				ev := runRetry(in)
				out.Emit(ev)
				mu.Lock()
				n++
				mu.Unlock()
			}
		}()
	}
	vt.EachInput(t, func(raw []byte) {
		var in retryIn
		vt.MustUnmarshal(t, raw, &in)
		ch <- in
	})
	close(ch)
	wg.Wait()
	t.Logf("retry cases: %d", n)
}
