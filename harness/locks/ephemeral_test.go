package locks

// Ephemeral registration driver (C26): registrants compete for one key through
// store.StartEphemeral on embedded etcd and on miniredis (one miniredis per schedule, because
// its virtual time is global).  A lapse is a lease revocation (etcd) or FastForward past the
// TTL (redis).  After every operation and a settle time of more than one heartbeat tick the
// set of registrants that still believe they are registered and the key's presence/owner are logged.

import (
	"context"
	"sync"
	"testing"
	"time"

	"github.com/alicebob/miniredis/v2"
	"github.com/projecteru2/core/store/etcdv3/embedded"
	"github.com/projecteru2/core/store/etcdv3/meta"
	redisstore "github.com/projecteru2/core/store/redis"
	coretypes "github.com/projecteru2/core/types"
	clientv3 "go.etcd.io/etcd/client/v3"
	"verif/harness/vt"
)

type ephOp struct {
	Op string `json:"op"`
	R  int    `json:"r"`
}

type ephStarter func(ctx context.Context, path string, hb time.Duration) (<-chan struct{}, func(), error)

type registrant struct {
	expiry <-chan struct{}
	stop   func()
	active bool
}

func (r *registrant) believes() bool {
	if !r.active {
		return false
	}
	select {
	case <-r.expiry:
		return false
	default:
		return true
	}
}

type ephBackend struct {
	name     string
	start    ephStarter
	hb       time.Duration
	settle   time.Duration
	lapse    func(path string)
	readBack func(path string) (present bool, lease int64)
}

func runEphSchedule(buf *bufEmitter, be *ephBackend, run int, ops []ephOp) {
	path := "/eph/" + be.name + "/" + time.Now().Format("150405.000000") + "/" + string(rune('a'+run%26))
	buf.Emit(map[string]any{"ev": "EphRun", "backend": be.name, "run": run})
	regs := map[int]*registrant{1: {}, 2: {}, 3: {}}
	leaseOwner := map[int64]int{}
	for i, op := range ops {
		ev := map[string]any{"ev": "EphOp", "op": op.Op, "r": op.R, "ok": true}
		switch op.Op {
		case "reg":
			r := regs[op.R]
			if r.believes() {
				ev["ok"] = false
				ev["op"] = "skip"
				break
			}
			if r.active && r.stop != nil { // clean up a registration that was told it lapsed
				r.stop()
				r.active = false
			}
			exp, stop, err := be.start(context.Background(), path, be.hb)
			if err != nil {
				ev["ok"] = false
			} else {
				r.expiry, r.stop, r.active = exp, stop, true
				if _, lease := be.readBack(path); lease != 0 {
					leaseOwner[lease] = op.R
				}
			}
		case "lapse":
			be.lapse(path)
		case "dereg":
			r := regs[op.R]
			if r.active && r.stop != nil {
				r.stop()
			} else {
				ev["op"] = "skip"
			}
			r.active = false
		}
		buf.Emit(ev)
		// every other schedule: a registration that follows a lapse comes at once, before the old
		// registrant's next heartbeat tick (the take-over race); the state is then looked at after that step
		if op.Op == "lapse" && run%2 == 1 && i+1 < len(ops) && ops[i+1].Op == "reg" {
			time.Sleep(30 * time.Millisecond)
			continue
		}
		time.Sleep(be.settle)
		bel := []int{}
		for i := 1; i <= 3; i++ {
			if regs[i].believes() {
				bel = append(bel, i)
			}
		}
		present, lease := be.readBack(path)
		owner := -1
		if be.name == "etcd" {
			owner = 0
			if present {
				owner = leaseOwner[lease]
			}
		}
		buf.Emit(map[string]any{"ev": "EphObs", "believers": bel, "present": present, "owner": owner})
	}
	for _, r := range regs {
		if r.active && r.stop != nil {
			r.stop()
		}
	}
}

type bufEmitter struct {
	evs []map[string]any
}

func (b *bufEmitter) Emit(ev map[string]any) { b.evs = append(b.evs, ev) }

func TestEphemeral(t *testing.T) {
	out := vt.OpenTrace(t)
	defer out.Close()
	cfg := coretypes.EtcdConfig{Prefix: "/verif", LockPrefix: "__lock__"}
	e, err := meta.NewETCD(cfg, t)
	if err != nil {
		t.Fatal(err)
	}
	cli := embedded.NewCluster(t, cfg.Prefix).RandClient()
	etcdBE := &ephBackend{name: "etcd", start: e.StartEphemeral, hb: 3 * time.Second, settle: 1400 * time.Millisecond,
		lapse: func(path string) {
			if resp, err := cli.Get(context.Background(), path); err == nil && len(resp.Kvs) > 0 {
				cli.Revoke(context.Background(), clientv3.LeaseID(resp.Kvs[0].Lease))
			}
		},
		readBack: func(path string) (bool, int64) {
			resp, err := cli.Get(context.Background(), path)
			if err != nil || len(resp.Kvs) == 0 {
				return false, 0
			}
			return true, resp.Kvs[0].Lease
		}}
	type job struct {
		run int
		ops []ephOp
		be  string
	}
	ch := make(chan job, 64)
	var wg sync.WaitGroup
	var flush sync.Mutex
	jit := vt.StartJitter()
	jit.Probe(func() { _, _ = cli.Get(context.Background(), "/verif-probe") }, 200*time.Millisecond)
	defer jit.Stop()
	for w := 0; w < vt.EnvInt("VERIF_PAR", 32); w++ {
		wg.Add(1)
		go func() {
			defer wg.Done()
			for j := range ch {
				b := &bufEmitter{}
				tStart := time.Now()
				if j.be == "etcd" {
					runEphSchedule(b, etcdBE, j.run, j.ops)
				} else {
					mr, err := miniredis.Run()
					if err != nil {
						continue
					}
					r, _ := redisstore.New(coretypes.Config{MaxConcurrency: 100, Redis: coretypes.RedisConfig{Addr: mr.Addr()}}, t)
					hb := 2 * time.Second
					be := &ephBackend{name: "redis", start: r.StartEphemeral, hb: hb, settle: 900 * time.Millisecond,
						lapse:    func(string) { mr.FastForward(hb + time.Millisecond) },
						readBack: func(path string) (bool, int64) { return mr.Exists(path), 0 }}
					runEphSchedule(b, be, j.run, j.ops)
					mr.Close()
				}
				if jit.StarvedSince(tStart) { // heartbeat ticks and settle times mean nothing when the process was starved of CPU
					continue
				}
				flush.Lock()
				for _, ev := range b.evs {
					out.Emit(ev)
				}
				flush.Unlock()
			}
		}()
	}
	run := 0
	vt.EachInput(t, func(raw []byte) {
		var in struct {
			Ops []ephOp `json:"ops"`
		}
		vt.MustUnmarshal(t, raw, &in)
		run++
		ch <- job{run, in.Ops, "etcd"}
		ch <- job{run, in.Ops, "redis"}
	})
	close(ch)
	wg.Wait()
	t.Logf("ephemeral schedules: %d x 2 backends", run)
}
