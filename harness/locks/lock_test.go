package locks

// Lock drivers (C18, C19): several contenders, each with its own lock object obtained from the
// store exactly as cluster/calcium/lock.go does (store.CreateLock(key, ttl)), on embedded etcd
// and on miniredis.  Events are written under one mutex with one sequence number; Enter is
// written AFTER Lock returned and Exit BEFORE Unlock is called, so two overlapping Enter..Exit
// intervals in the trace are a real overlap.

import (
	"context"
	"math/rand"
	"sync"
	"testing"
	"time"

	"github.com/alicebob/miniredis/v2"
	"github.com/projecteru2/core/lock"
	"github.com/projecteru2/core/store/etcdv3/embedded"
	"github.com/projecteru2/core/store/etcdv3/meta"
	redisstore "github.com/projecteru2/core/store/redis"
	coretypes "github.com/projecteru2/core/types"
	clientv3 "go.etcd.io/etcd/client/v3"
	"verif/harness/vt"
)

type lockMaker func(key string, ttl time.Duration) (lock.DistributedLock, error)

var start = time.Now()

func ms() int64 { return time.Since(start).Milliseconds() }

func etcdMaker(t *testing.T) (lockMaker, *clientv3.Client) {
	cfg := coretypes.EtcdConfig{Prefix: "/verif", LockPrefix: "__lock__"}
	e, err := meta.NewETCD(cfg, t)
	if err != nil {
		t.Fatal(err)
	}
	cli := embedded.NewCluster(t, cfg.Prefix).RandClient()
	return e.CreateLock, cli
}

func redisMaker(t *testing.T) (lockMaker, *miniredis.Miniredis) {
	mr, err := miniredis.Run()
	if err != nil {
		t.Fatal(err)
	}
	t.Cleanup(mr.Close)
	r, err := redisstore.New(coretypes.Config{MaxConcurrency: 1000, Redis: coretypes.RedisConfig{Addr: mr.Addr(), LockPrefix: "__lock__"}}, t)
	if err != nil {
		t.Fatal(err)
	}
	return r.CreateLock, mr
}

// contention: N contenders x cycles of lock|try-lock / critical section / unlock on one key.
func contention(t *testing.T, out *vt.Writer, backend string, mk lockMaker, n, cycles int, ttl time.Duration, seed int64, run int) {
	key := "k" + backend + time.Now().Format("150405.000000")
	out.Emit(map[string]any{"ev": "LockRun", "backend": backend, "run": run, "ttlMs": ttl.Milliseconds(), "n": n})
	var wg sync.WaitGroup
	for c := 1; c <= n; c++ {
		wg.Add(1)
		go func(c int) {
			defer wg.Done()
			rng := rand.New(rand.NewSource(seed*1000 + int64(c)))
			for i := 0; i < cycles; i++ {
				time.Sleep(time.Duration(rng.Intn(15)) * time.Millisecond)
				l, err := mk(key, ttl)
				if err != nil {
					out.Emit(map[string]any{"ev": "LockErr", "c": c, "what": "create", "err": err.Error()})
					continue
				}
				kind := "lock"
				if rng.Intn(3) == 0 {
					kind = "try"
				}
				hold := time.Duration(rng.Intn(30)) * time.Millisecond
				if rng.Intn(12) == 0 {
					hold = ttl + 200*time.Millisecond // long holder: waiters must time out (etcd keeps the lease alive)
					if backend == "redis" {
						hold = ttl - 100*time.Millisecond // redis: the TTL bounds the hold
					}
				}
				t0 := time.Now()
				ctx := context.Background()
				var lctx context.Context
				if kind == "lock" {
					lctx, err = l.Lock(ctx)
				} else {
					lctx, err = l.TryLock(ctx)
				}
				dur := time.Since(t0).Milliseconds()
				if err != nil {
					out.Emit(map[string]any{"ev": "Fail", "c": c, "kind": kind, "durMs": dur, "t": ms()})
					_ = l.Unlock(context.Background()) // calcium's doLock releases the session of a failed lock
					continue
				}
				out.Emit(map[string]any{"ev": "Enter", "c": c, "kind": kind, "waitMs": dur, "t": ms(), "ctxLive": lctx.Err() == nil})
				time.Sleep(hold)
				out.Emit(map[string]any{"ev": "Exit", "c": c, "t": ms()})
				if err := l.Unlock(context.Background()); err != nil {
					out.Emit(map[string]any{"ev": "LockErr", "c": c, "what": "unlock", "err": err.Error()})
				}
			}
		}(c)
	}
	wg.Wait()
	out.Emit(map[string]any{"ev": "LockRunEnd", "run": run})
}

// crowd: one holder keeps the lock for most of the waiters' timeout while many waiters queue up;
// after the release they enter one after the other. Repeated rounds accumulate thousands of
// waiter polls in one process (per-process state in a lock implementation shows up here).
func crowd(t *testing.T, out *vt.Writer, backend string, mk lockMaker, waiters int, ttl time.Duration, run int) {
	key := "crowd" + backend + time.Now().Format("150405.000000")
	out.Emit(map[string]any{"ev": "LockRun", "backend": backend, "run": run, "ttlMs": ttl.Milliseconds(), "n": waiters + 1})
	holder, err := mk(key, ttl)
	if err != nil {
		t.Fatal(err)
	}
	if _, err := holder.Lock(context.Background()); err != nil {
		out.Emit(map[string]any{"ev": "LockErr", "c": 1, "what": "lock", "err": err.Error()})
		return
	}
	out.Emit(map[string]any{"ev": "Enter", "c": 1, "kind": "lock", "waitMs": 0, "t": ms(), "ctxLive": true})
	var wg sync.WaitGroup
	for c := 2; c <= waiters+1; c++ {
		wg.Add(1)
		go func(c int) {
			defer wg.Done()
			l, err := mk(key, ttl)
			if err != nil {
				return
			}
			t0 := time.Now()
			lctx, err := l.Lock(context.Background())
			dur := time.Since(t0).Milliseconds()
			if err != nil {
				out.Emit(map[string]any{"ev": "Fail", "c": c, "kind": "lock", "durMs": dur, "t": ms()})
				_ = l.Unlock(context.Background())
				return
			}
			out.Emit(map[string]any{"ev": "Enter", "c": c, "kind": "lock", "waitMs": dur, "t": ms(), "ctxLive": lctx.Err() == nil})
			time.Sleep(3 * time.Millisecond)
			out.Emit(map[string]any{"ev": "Exit", "c": c, "t": ms()})
			_ = l.Unlock(context.Background())
		}(c)
	}
	time.Sleep(ttl * 6 / 10)
	out.Emit(map[string]any{"ev": "Exit", "c": 1, "t": ms()})
	_ = holder.Unlock(context.Background())
	wg.Wait()
	out.Emit(map[string]any{"ev": "LockRunEnd", "run": run})
}

func TestLockContention(t *testing.T) {
	out := vt.OpenTrace(t)
	defer out.Close()
	emk, cli := etcdMaker(t)
	rmk, _ := redisMaker(t)
	runs := vt.EnvInt("VERIF_RUNS", 2)
	cycles := vt.EnvInt("VERIF_CYCLES", 15)
	seed := vt.Seed()
	jit := vt.StartJitter()
	jit.Probe(func() { _, _ = cli.Get(context.Background(), "/verif-probe") }, 300*time.Millisecond)
	defer jit.Stop()
	dropped := 0
	guarded := func(f func()) { // a run during which this process was starved of CPU says nothing about time bounds
		t0 := time.Now()
		out.Begin()
		f()
		if jit.StarvedSince(t0) {
			out.Abort()
			dropped++
			return
		}
		out.Commit()
	}
	for r := 0; r < runs; r++ {
		n := 3 + r%4
		guarded(func() { contention(t, out, "etcd", emk, n, cycles, time.Second, seed+int64(r), 2*r) })
		guarded(func() { contention(t, out, "redis", rmk, n, cycles, time.Second, seed+int64(r), 2*r+1) })
	}
	for r := 0; r < vt.EnvInt("VERIF_CROWDS", 3); r++ {
		guarded(func() { crowd(t, out, "redis", rmk, 12, 2*time.Second, 1000+2*r) })
		guarded(func() { crowd(t, out, "etcd", emk, 12, 2*time.Second, 1001+2*r) })
	}
	t.Logf("runs dropped because the process was starved: %d", dropped)
}

// ---------------------------------------------------------------- C19: loss of the lock
// holder A takes the lock; B waits for it; A's lease is revoked (etcd) or its TTL elapses in
// virtual time (miniredis); we log the loss, B's entry, and the moment A's lock context is done.
func lossScenario(t *testing.T, out *vt.Writer, backend string, mk lockMaker, expire func(key string, mark func()), ttl time.Duration, run int, bEarly bool) {
	key := "loss" + backend + time.Now().Format("150405.000000")
	out.Emit(map[string]any{"ev": "LossRun", "backend": backend, "run": run, "ttlMs": ttl.Milliseconds()})
	la, err := mk(key, ttl)
	if err != nil {
		t.Fatal(err)
	}
	if run%4 >= 2 {
		// every other pair of runs: the holder's lock OBJECT has been through a lock / unlock cycle before
		// (alternately with Lock and TryLock); what it is told about must be the current acquisition
		if _, err := la.Lock(context.Background()); err == nil {
			_ = la.Unlock(context.Background())
		}
	}
	var actx context.Context
	if run%8 >= 4 {
		actx, err = la.TryLock(context.Background())
	} else {
		actx, err = la.Lock(context.Background())
	}
	if err != nil {
		out.Emit(map[string]any{"ev": "LockErr", "c": 1, "what": "lock", "err": err.Error()})
		return
	}
	out.Emit(map[string]any{"ev": "Enter", "c": 1, "kind": "lock", "waitMs": 0, "t": ms(), "ctxLive": actx.Err() == nil})
	var wg sync.WaitGroup
	wg.Add(2)
	go func() { // watcher of A's lock context
		defer wg.Done()
		select {
		case <-actx.Done():
			out.Emit(map[string]any{"ev": "CtxDone", "c": 1, "t": ms()})
		case <-time.After(ttl + 3*time.Second):
			out.Emit(map[string]any{"ev": "CtxStillLive", "c": 1, "t": ms()})
		}
	}()
	go func() { // contender B
		defer wg.Done()
		if !bEarly {
			time.Sleep(150 * time.Millisecond)
		}
		deadline := time.Now().Add(ttl + 3*time.Second)
		for time.Now().Before(deadline) {
			lb, err := mk(key, ttl)
			if err != nil {
				return
			}
			bctx, err := lb.Lock(context.Background())
			if err == nil {
				out.Emit(map[string]any{"ev": "Enter", "c": 2, "kind": "lock", "waitMs": 0, "t": ms(), "ctxLive": bctx.Err() == nil})
				time.Sleep(50 * time.Millisecond)
				out.Emit(map[string]any{"ev": "Exit", "c": 2, "t": ms()})
				lb.Unlock(context.Background())
				return
			}
			lb.Unlock(context.Background())
		}
		out.Emit(map[string]any{"ev": "Fail", "c": 2, "kind": "lock", "durMs": 0, "t": ms()})
	}()
	time.Sleep(100 * time.Millisecond)
	// "Expire" is written immediately BEFORE the call that makes the backend drop A's record
	expire(key, func() { out.Emit(map[string]any{"ev": "Expire", "c": 1, "t": ms()}) })
	wg.Wait()
	out.Emit(map[string]any{"ev": "Exit", "c": 1, "t": ms()})
	la.Unlock(context.Background())
	out.Emit(map[string]any{"ev": "LossRunEnd", "run": run})
}

func TestLockLoss(t *testing.T) {
	out := vt.OpenTrace(t)
	defer out.Close()
	emk, cli := etcdMaker(t)
	rmk, mr := redisMaker(t)
	runs := vt.EnvInt("VERIF_RUNS", 2)
	jit := vt.StartJitter()
	jit.Probe(func() { _, _ = cli.Get(context.Background(), "/verif-probe") }, 300*time.Millisecond)
	defer jit.Stop()
	guarded := func(f func()) {
		t0 := time.Now()
		out.Begin()
		f()
		if jit.StarvedSince(t0) {
			out.Abort()
			return
		}
		out.Commit()
	}
	for r := 0; r < runs; r++ {
		r := r
		ttl := 3 * time.Second
		guarded(func() {
			lossScenario(t, out, "etcd", emk, func(key string, mark func()) {
				// the holder's record is the lowest create-revision key under the lock prefix; revoke its lease
				resp, err := cli.Get(context.Background(), "/__lock__/"+key, clientv3.WithPrefix(), clientv3.WithSort(clientv3.SortByCreateRevision, clientv3.SortAscend))
				if err != nil || len(resp.Kvs) == 0 {
					out.Emit(map[string]any{"ev": "LockErr", "c": 1, "what": "find-holder", "err": "no key"})
					return
				}
				mark()
				cli.Revoke(context.Background(), clientv3.LeaseID(resp.Kvs[0].Lease))
			}, ttl, 2*r, r%2 == 0)
		})
		rttl := time.Second
		guarded(func() {
			lossScenario(t, out, "redis", rmk, func(key string, mark func()) {
				// let the TTL elapse in real time as well as in miniredis' virtual time
				time.Sleep(rttl - 100*time.Millisecond)
				mark()
				mr.FastForward(rttl + time.Millisecond)
			}, rttl, 2*r+1, r%2 == 0)
		})
	}
}
