// Package vt: trace/input plumbing shared by all drivers.
package vt

import (
	"bufio"
	"bytes"
	"encoding/json"
	"os"
	"strconv"
	"strings"
	"sync"
	"sync/atomic"
	"testing"
	"time"
)

// Writer writes ndjson events; Emit is safe for concurrent use and assigns seq under the lock.
type Writer struct {
	mu      sync.Mutex
	f       *os.File
	w       *bufio.Writer
	seq     int
	holding bool
	held    [][]byte
}

func OpenTrace(t testing.TB) *Writer {
	p := os.Getenv("VERIF_TRACE")
	if p == "" {
		t.Skip("VERIF_TRACE not set")
	}
	f, err := os.Create(p)
	if err != nil {
		t.Fatal(err)
	}
	return &Writer{f: f, w: bufio.NewWriterSize(f, 1<<20)}
}

func (w *Writer) Emit(ev map[string]any) {
	w.mu.Lock()
	defer w.mu.Unlock()
	w.seq++
	ev["seq"] = w.seq
	b, err := json.Marshal(ev)
	if err != nil {
		panic(err)
	}
	// TLC's JSON reader has no null: a nil slice is an empty sequence
	b = bytes.ReplaceAll(b, []byte(":null"), []byte(":[]"))
	if w.holding {
		w.held = append(w.held, b)
		return
	}
	w.w.Write(b)
	w.w.WriteByte('\n')
	if crashFile != "" { // a crash of the code under test must not take the events of earlier inputs with it
		w.w.Flush()
	}
}

// VERIF_CRASHFILE: the pipeline wants to know which input was running if the process dies (a panic in a goroutine of
// the code under test cannot be recovered by the driver): EachInput writes every input there before running it.
var crashFile = os.Getenv("VERIF_CRASHFILE")

func (w *Writer) Seq() int { w.mu.Lock(); defer w.mu.Unlock(); return w.seq }

func (w *Writer) Close() {
	w.mu.Lock()
	defer w.mu.Unlock()
	w.w.Flush()
	w.f.Close()
	if n := envDropped.Load(); n > 0 {
		_ = os.WriteFile(w.f.Name()+".envdropped", []byte(strconv.FormatInt(n, 10)), 0o644)
	}
}

// Environment failures: the embedded etcd itself failing (a request timed out on an overloaded machine ...).
// The outcome of such a call is unknown - it may or may not have been applied - so the input during which it
// happened cannot be judged: the driver drops it and counts it; the count goes to <trace>.envdropped and the
// pipeline refuses a verdict when too many inputs were dropped.
var envFails, envDropped atomic.Int64

func IsEnvErr(err error) bool {
	if err == nil {
		return false
	}
	m := err.Error()
	return strings.Contains(m, "etcdserver:") || strings.Contains(m, "mvcc:") || strings.Contains(m, "code = Unavailable")
}

// NoteErr records err if it is an environment failure; it returns err's verdict for convenience.
func NoteErr(err error) bool {
	if IsEnvErr(err) {
		envFails.Add(1)
		return true
	}
	return false
}

func EnvMark() int64 { return envFails.Load() }

// EnvFailedSince: an environment failure was noted since the mark (then the input is counted as dropped).
func EnvFailedSince(mark int64) bool {
	if envFails.Load() != mark {
		envDropped.Add(1)
		return true
	}
	return false
}

// NoteEnvDrop counts an input dropped on behalf of a worker process.
func NoteEnvDrop() { envDropped.Add(1) }

func Seed() int64 { return int64(EnvInt("VERIF_SEED", 1)) }

func EnvInt(k string, def int) int {
	if v := os.Getenv(k); v != "" {
		if n, err := strconv.Atoi(v); err == nil {
			return n
		}
	}
	return def
}

// EachInput calls fn for every line of the ndjson file VERIF_INPUTS (if set).
func EachInput(t testing.TB, fn func(raw []byte)) {
	p := os.Getenv("VERIF_INPUTS")
	if p == "" {
		return
	}
	f, err := os.Open(p)
	if err != nil {
		t.Fatal(err)
	}
	defer f.Close()
	sc := bufio.NewScanner(f)
	sc.Buffer(make([]byte, 1<<20), 1<<26)
	for sc.Scan() {
		if len(sc.Bytes()) == 0 {
			continue
		}
		b := append([]byte(nil), sc.Bytes()...)
		if crashFile != "" {
			_ = os.WriteFile(crashFile, b, 0o644)
		}
		fn(b)
	}
	if err := sc.Err(); err != nil {
		t.Fatal(err)
	}
}

func MustUnmarshal(t testing.TB, raw []byte, v any) {
	if err := json.Unmarshal(raw, v); err != nil {
		t.Fatalf("bad input %s: %v", raw, err)
	}
}

// Jitter measures how badly this process is being starved of CPU: a goroutine sleeps 5 ms at a
// time and records every oversleep of more than StarvedMs. A run of a real-time driver during
// which such an episode happened cannot be judged against time bounds and is dropped / marked.
type Jitter struct {
	mu   sync.Mutex
	bad  []time.Time
	stop chan struct{}
}

const StarvedMs = 400

func StartJitter() *Jitter {
	j := &Jitter{stop: make(chan struct{})}
	go func() {
		for {
			select {
			case <-j.stop:
				return
			default:
			}
			t0 := time.Now()
			time.Sleep(5 * time.Millisecond)
			if time.Since(t0) > (StarvedMs+5)*time.Millisecond {
				j.mu.Lock()
				j.bad = append(j.bad, t0)
				j.mu.Unlock()
			}
		}
	}()
	return j
}

// Probe adds a latency probe of the environment the driver depends on (typically a read from the embedded etcd, whose
// answers on a loaded machine can take hundreds of milliseconds although this process is scheduled normally): f is
// called every 50 ms; a call that takes longer than limit counts like a starvation episode.
func (j *Jitter) Probe(f func(), limit time.Duration) {
	go func() {
		for {
			select {
			case <-j.stop:
				return
			default:
			}
			t0 := time.Now()
			f()
			if time.Since(t0) > limit {
				j.mu.Lock()
				j.bad = append(j.bad, t0)
				j.mu.Unlock()
			}
			time.Sleep(50 * time.Millisecond)
		}
	}()
}

// StarvedSince reports whether the process was starved at some moment after t0.
func (j *Jitter) StarvedSince(t0 time.Time) bool {
	j.mu.Lock()
	defer j.mu.Unlock()
	for _, b := range j.bad {
		if b.After(t0.Add(-StarvedMs * time.Millisecond)) {
			return true
		}
	}
	return false
}

func (j *Jitter) Stop() { close(j.stop) }

// Begin / Commit / Abort: events emitted between Begin and Commit are held back and written by
// Commit, or dropped by Abort (a run that turned out not to be judgeable).
func (w *Writer) Begin() {
	w.mu.Lock()
	defer w.mu.Unlock()
	w.holding, w.held = true, nil
}

func (w *Writer) Commit() {
	w.mu.Lock()
	defer w.mu.Unlock()
	for _, b := range w.held {
		w.w.Write(b)
		w.w.WriteByte('\n')
	}
	w.holding, w.held = false, nil
}

func (w *Writer) Abort() {
	w.mu.Lock()
	defer w.mu.Unlock()
	w.holding, w.held = false, nil
}
