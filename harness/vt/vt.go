// Package vt: trace/input plumbing shared by all drivers.
package vt

import (
	"bufio"
	"bytes"
	"encoding/json"
	"os"
	"strconv"
	"sync"
	"testing"
)

// Writer writes ndjson events; Emit is safe for concurrent use and assigns seq under the lock.
type Writer struct {
	mu  sync.Mutex
	f   *os.File
	w   *bufio.Writer
	seq int
}

func OpenTrace(t testing.TB) *Writer {
	p := os.Getenv("VERIF_TRACE")
	if p == "" {
		t.Skip("VERIF_TRACE not set")
	}
	f, err := os.Create(p)
	if err != nil {
		t.Fatal(err)
	}
	return &Writer{f: f, w: bufio.NewWriterSize(f, 1<<20)}
}

func (w *Writer) Emit(ev map[string]any) {
	w.mu.Lock()
	defer w.mu.Unlock()
	w.seq++
	ev["seq"] = w.seq
	b, err := json.Marshal(ev)
	if err != nil {
		panic(err)
	}
	// TLC's JSON reader has no null: a nil slice is an empty sequence
	b = bytes.ReplaceAll(b, []byte(":null"), []byte(":[]"))
	w.w.Write(b)
	w.w.WriteByte('\n')
}

func (w *Writer) Seq() int { w.mu.Lock(); defer w.mu.Unlock(); return w.seq }

func (w *Writer) Close() {
	w.mu.Lock()
	defer w.mu.Unlock()
	w.w.Flush()
	w.f.Close()
}

func Seed() int64 { return int64(EnvInt("VERIF_SEED", 1)) }

func EnvInt(k string, def int) int {
	if v := os.Getenv(k); v != "" {
		if n, err := strconv.Atoi(v); err == nil {
			return n
		}
	}
	return def
}

// EachInput calls fn for every line of the ndjson file VERIF_INPUTS (if set).
func EachInput(t testing.TB, fn func(raw []byte)) {
	p := os.Getenv("VERIF_INPUTS")
	if p == "" {
		return
	}
	f, err := os.Open(p)
	if err != nil {
		t.Fatal(err)
	}
	defer f.Close()
	sc := bufio.NewScanner(f)
	sc.Buffer(make([]byte, 1<<20), 1<<26)
	for sc.Scan() {
		if len(sc.Bytes()) == 0 {
			continue
		}
		b := append([]byte(nil), sc.Bytes()...)
		fn(b)
	}
	if err := sc.Err(); err != nil {
		t.Fatal(err)
	}
}

func MustUnmarshal(t testing.TB, raw []byte, v any) {
	if err := json.Unmarshal(raw, v); err != nil {
		t.Fatalf("bad input %s: %v", raw, err)
	}
}
