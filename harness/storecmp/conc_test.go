package storecmp

// Driver for C13's counting rule under concurrency (etcd store): an ordered pair of store calls
// (A, B) from the StoreConc model; A is parked right before each of its etcd client requests in
// turn (the shared embedded-etcd client's KV is decorated: Get / Put / Delete / Txn.Commit), B runs
// to completion inside that window, the count and the recorded workloads are read (in the window
// and at the end), A is released.

import (
	"context"
	"fmt"
	"sync"
	"testing"
	"time"

	"github.com/projecteru2/core/store"
	"github.com/projecteru2/core/store/etcdv3"
	"github.com/projecteru2/core/store/etcdv3/embedded"
	coretypes "github.com/projecteru2/core/types"
	clientv3 "go.etcd.io/etcd/client/v3"
	"verif/harness/vt"
)

type ctxKey struct{}

type holdKV struct {
	clientv3.KV
	mu       sync.Mutex
	op       string
	at, n    int
	reached  chan struct{}
	release  chan struct{}
	reached2 chan struct{} // A is parked a second time at its next request (to look at the state between the two)
	release2 chan struct{}
}

func (h *holdKV) arm(op string, at int) {
	h.mu.Lock()
	defer h.mu.Unlock()
	h.op, h.at, h.n = op, at, 0
	h.reached, h.release = make(chan struct{}), make(chan struct{})
	h.reached2, h.release2 = make(chan struct{}), make(chan struct{})
}

func (h *holdKV) point(ctx context.Context) {
	if v, _ := ctx.Value(ctxKey{}).(string); v == "" || v != h.op {
		return
	}
	h.mu.Lock()
	h.n++
	hit := h.at != 0 && h.n == h.at
	hit2 := h.at != 0 && h.n == h.at+1
	reached, release, reached2, release2 := h.reached, h.release, h.reached2, h.release2
	h.mu.Unlock()
	if hit {
		close(reached)
		<-release
	}
	if hit2 {
		close(reached2)
		<-release2
	}
}

func (h *holdKV) count() int { h.mu.Lock(); defer h.mu.Unlock(); return h.n }

func (h *holdKV) Get(ctx context.Context, key string, opts ...clientv3.OpOption) (*clientv3.GetResponse, error) {
	h.point(ctx)
	return h.KV.Get(ctx, key, opts...)
}
func (h *holdKV) Put(ctx context.Context, key, val string, opts ...clientv3.OpOption) (*clientv3.PutResponse, error) {
	h.point(ctx)
	return h.KV.Put(ctx, key, val, opts...)
}
func (h *holdKV) Delete(ctx context.Context, key string, opts ...clientv3.OpOption) (*clientv3.DeleteResponse, error) {
	h.point(ctx)
	return h.KV.Delete(ctx, key, opts...)
}
func (h *holdKV) Txn(ctx context.Context) clientv3.Txn {
	return &holdTxn{Txn: h.KV.Txn(ctx), h: h, ctx: ctx}
}

type holdTxn struct {
	clientv3.Txn
	h   *holdKV
	ctx context.Context
}

func (t *holdTxn) If(cs ...clientv3.Cmp) clientv3.Txn   { t.Txn = t.Txn.If(cs...); return t }
func (t *holdTxn) Then(ops ...clientv3.Op) clientv3.Txn { t.Txn = t.Txn.Then(ops...); return t }
func (t *holdTxn) Else(ops ...clientv3.Op) clientv3.Txn { t.Txn = t.Txn.Else(ops...); return t }
func (t *holdTxn) Commit() (*clientv3.TxnResponse, error) {
	t.h.point(t.ctx)
	return t.Txn.Commit()
}

func safeApply(ctx context.Context, s store.Store, nm names, op sop) (class string) {
	defer func() {
		if r := recover(); r != nil {
			class = "panic"
		}
	}()
	return apply(ctx, s, nm, op)
}

func TestStoreConc(t *testing.T) {
	out := vt.OpenTrace(t)
	defer out.Close()
	be := newBackends(t)
	cli := embedded.NewCluster(t, be.cfg.Etcd.Prefix).RandClient()
	h := &holdKV{KV: cli.KV}
	cli.KV = h
	defer func() { cli.KV = h.KV }()
	nm := names{}
	ctx := context.Background()
	observe := func() map[string]any {
		ds, err := be.etcd.GetDeployStatus(ctx, "a", "x")
		rec := 0
		if m, ok := be.etcd.(*etcdv3.Mercury); ok {
			if resp, err := m.Get(ctx, "/deploy/a/x/n1/", clientv3.WithPrefix(), clientv3.WithKeysOnly()); err == nil {
				rec = int(resp.Count)
			}
		}
		if err != nil {
			return map[string]any{"ds": -1, "rec": rec}
		}
		return map[string]any{"ds": ds["n1"], "rec": rec}
	}
	setup := func(pre string) {
		be.wipe(ctx, nm)
		h.arm("", 0)
		_, _ = be.etcd.AddPod(ctx, "p1", "")
		_, _ = be.etcd.AddNode(ctx, &coretypes.AddNodeOptions{Nodename: "n1", Endpoint: "mock://n1", Podname: "p1", Labels: map[string]string{}})
		_ = be.etcd.CreateProcessing(ctx, &coretypes.Processing{Appname: "a", Entryname: "x", Nodename: "n1", Ident: "i1"}, 2)
		if pre == "marker+w1" {
			_ = be.etcd.AddWorkload(ctx, nm.workload("w1", "n1"), nil)
		}
	}
	run := 0
	vt.EachInput(t, func(raw []byte) {
		var in struct {
			Pre string `json:"pre"`
			A   sop    `json:"a"`
			B   sop    `json:"b"`
		}
		vt.MustUnmarshal(t, raw, &in)
		ctxA := context.WithValue(ctx, ctxKey{}, "A")
		setup(in.Pre)
		h.arm("A", 0)
		safeApply(ctxA, be.etcd, nm, in.A)
		K := h.count()
		for k := 1; k <= K; k++ {
			run++
			mark := vt.EnvMark()
			setup(in.Pre)
			h.arm("A", k)
			doneA := make(chan string, 1)
			go func() { doneA <- safeApply(ctxA, be.etcd, nm, in.A) }()
			classA, reached := "", false
			select {
			case <-h.reached:
				reached = true
			case classA = <-doneA:
			case <-time.After(10 * time.Second):
			}
			classB := safeApply(ctx, be.etcd, nm, in.B)
			mid := observe()
			mid2 := mid
			if reached {
				close(h.release)
				// let A perform exactly one more request and look again before it goes on
				select {
				case <-h.reached2:
					mid2 = observe()
					close(h.release2)
				case classA = <-doneA:
				case <-time.After(10 * time.Second):
				}
			}
			if classA == "" {
				select {
				case classA = <-doneA:
				case <-time.After(10 * time.Second):
					classA = "hang"
				}
			}
			if vt.EnvFailedSince(mark) {
				continue
			}
			out.Emit(map[string]any{"ev": "SConc", "run": run, "pre": in.Pre, "a": in.A, "b": in.B, "k": k, "reached": reached,
				"classA": classA, "classB": classB, "mid": mid, "mid2": mid2, "fin": observe()})
		}
	})
	t.Logf("concurrent store runs: %d", run)
	_ = fmt.Sprint
}
