package storecmp

// C24 driver: workloads are created under TLC-enumerated (application, entrypoint, node) names -
// only names the request validation accepts - on both stores; every combination of list /
// deploy-status filters is then asked and the raw answers are logged. One process = one worker
// (the stores are wiped completely between scenarios); the orchestrator runs several processes.

import (
	"context"
	"sort"
	"strings"
	"testing"

	clientv3 "go.etcd.io/etcd/client/v3"

	"github.com/projecteru2/core/store"
	"github.com/projecteru2/core/store/etcdv3"
	coretypes "github.com/projecteru2/core/types"
	"github.com/projecteru2/core/utils"
	"verif/harness/vt"
)

type nw struct {
	ID    string `json:"id"`
	App   string `json:"app"`
	Entry string `json:"entry"`
	Node  string `json:"node"`
}

func accepted(w nw) bool {
	d := &coretypes.DeployOptions{Name: w.App, Podname: "pod", Image: "img", Count: 1, Entrypoint: &coretypes.Entrypoint{Name: w.Entry}}
	if d.Validate() != nil {
		return false
	}
	n := &coretypes.AddNodeOptions{Nodename: w.Node, Podname: "pod", Endpoint: "mock://x"}
	return n.Validate() == nil
}

func (b *backends) wipeAll(ctx context.Context) {
	if m, ok := b.etcd.(*etcdv3.Mercury); ok {
		_, _ = m.Delete(ctx, "/", clientv3.WithPrefix())
		_, _ = m.Delete(ctx, "", clientv3.WithPrefix())
	}
	b.mr.FlushAll()
}

func uniq(xs []string) []string {
	sort.Strings(xs)
	out := xs[:0]
	for i, x := range xs {
		if i == 0 || x != xs[i-1] {
			out = append(out, x)
		}
	}
	return out
}

func TestStoreNames(t *testing.T) {
	out := vt.OpenTrace(t)
	defer out.Close()
	be := newBackends(t)
	ctx := context.Background()
	stores := []struct {
		name string
		s    store.Store
	}{{"etcd", be.etcd}, {"redis", be.redis}}
	run := 0
	vt.EachInput(t, func(raw []byte) {
		var in struct {
			Ws []nw `json:"ws"`
		}
		vt.MustUnmarshal(t, raw, &in)
		for _, w := range in.Ws {
			if !accepted(w) {
				return
			}
		}
		run++
		mark := vt.EnvMark()
		be.wipeAll(ctx)
		ev := map[string]any{"ev": "Names", "run": run}
		flags := map[string]bool{"slash": false, "glob": false, "dots": false}
		ws := []map[string]any{}
		apps, entries, nodes := []string{""}, []string{""}, []string{""}
		for _, w := range in.Ws {
			for _, s := range []string{w.App, w.Entry, w.Node} {
				flags["slash"] = flags["slash"] || strings.Contains(s, "/")
				flags["glob"] = flags["glob"] || strings.ContainsAny(s, "*?[]\\")
				flags["dots"] = flags["dots"] || s == "." || s == ".."
			}
			pa, pe, pi, perr := utils.ParseWorkloadName(utils.MakeWorkloadName(w.App, w.Entry, "ident"))
			ws = append(ws, map[string]any{"id": w.ID, "app": w.App, "entry": w.Entry, "node": w.Node,
				"papp": pa, "pentry": pe, "pident": pi, "perr": perr != nil})
			apps, entries, nodes = append(apps, w.App), append(entries, w.Entry), append(nodes, w.Node)
		}
		ev["flags"] = flags
		segs := map[string][]string{"": {""}}
		for _, w := range in.Ws {
			for _, s := range []string{w.App, w.Entry, w.Node} {
				segs[s] = strings.Split(s, "/")
			}
		}
		ev["segs"] = segs
		apps, entries, nodes = uniq(apps), uniq(entries), uniq(nodes)
		queries := []map[string]any{}
		for _, st := range stores {
			_, _ = st.s.AddPod(ctx, "pod", "")
			added := map[string]bool{}
			for _, w := range in.Ws {
				if !added[w.Node] {
					_, err := st.s.AddNode(ctx, &coretypes.AddNodeOptions{Nodename: w.Node, Podname: "pod", Endpoint: "mock://" + w.Node})
					added[w.Node] = true
					queries = append(queries, map[string]any{"k": "addnode", "b": st.name, "a": "", "e": "", "n": w.Node, "class": cls(err), "ids": []string{}, "counts": []any{}})
				}
				wl := &coretypes.Workload{ID: w.ID, Name: utils.MakeWorkloadName(w.App, w.Entry, "ident"), Nodename: w.Node, Podname: "pod", Labels: map[string]string{}}
				err := st.s.AddWorkload(ctx, wl, nil)
				queries = append(queries, map[string]any{"k": "add", "b": st.name, "a": w.App, "e": w.Entry, "n": w.Node, "class": cls(err), "ids": []string{w.ID}, "counts": []any{}})
			}
			for _, a := range apps {
				for _, e := range entries {
					if a == "" && e != "" {
						continue
					}
					m, err := st.s.GetDeployStatus(ctx, a, e)
					if a != "" && e != "" {
						counts := []any{}
						keys := []string{}
						for k := range m {
							keys = append(keys, k)
						}
						sort.Strings(keys)
						for _, k := range keys {
							counts = append(counts, map[string]any{"node": k, "n": m[k]})
						}
						queries = append(queries, map[string]any{"k": "deploy", "b": st.name, "a": a, "e": e, "n": "", "class": cls(err), "ids": []string{}, "counts": counts})
					}
					for _, n := range nodes {
						if e == "" && n != "" {
							continue
						}
						lst, err := st.s.ListWorkloads(ctx, a, e, n, 0, nil)
						got := []string{}
						for _, x := range lst {
							got = append(got, x.ID)
						}
						sort.Strings(got)
						queries = append(queries, map[string]any{"k": "list", "b": st.name, "a": a, "e": e, "n": n, "class": cls(err), "ids": got, "counts": []any{}})
					}
				}
			}
		}
		ev["ws"] = ws
		ev["queries"] = queries
		if vt.EnvFailedSince(mark) {
			return
		}
		out.Emit(ev)
	})
	t.Logf("name scenarios: %d", run)
}
