package storecmp

// Driver for the EngineCache module (beyond the listed properties; diagnostic): the real
// engine/factory cache with its liveness loop and node-status watcher, a real docker engine client
// talking to an in-process fake Docker daemon that is switched off and on, and the etcd store for
// the node's heartbeat status. TLC-simulated schedules of up / down / heartbeat / lapse / get /
// wait; the cached entry is looked at after every step.

import (
	"context"
	"encoding/json"
	"fmt"
	"net"
	"net/http"
	"strings"
	"sync"
	"testing"
	"time"

	enginefactory "github.com/projecteru2/core/engine/factory"
	"github.com/projecteru2/core/engine/fake"
	"github.com/projecteru2/core/store/etcdv3"
	coretypes "github.com/projecteru2/core/types"
	"verif/harness/vt"
)

type dockerd struct {
	mu   sync.Mutex
	addr string
	srv  *http.Server
}

func (d *dockerd) handler() http.Handler {
	return http.HandlerFunc(func(w http.ResponseWriter, r *http.Request) {
		w.Header().Set("Content-Type", "application/json")
		switch {
		case strings.HasSuffix(r.URL.Path, "/_ping"):
			w.Header().Set("API-Version", "1.41")
			w.Write([]byte("OK"))
		case strings.HasSuffix(r.URL.Path, "/info"):
			json.NewEncoder(w).Encode(map[string]any{"ID": "fake", "NCPU": 2, "MemTotal": int64(8) << 30})
		default:
			w.WriteHeader(404)
			w.Write([]byte(`{"message":"not implemented"}`))
		}
	})
}

func (d *dockerd) up() error {
	d.mu.Lock()
	defer d.mu.Unlock()
	if d.srv != nil {
		return nil
	}
	a := d.addr
	if a == "" {
		a = "127.0.0.1:0"
	}
	var ln net.Listener
	var err error
	for i := 0; i < 20; i++ {
		if ln, err = net.Listen("tcp", a); err == nil {
			break
		}
		time.Sleep(20 * time.Millisecond)
	}
	if err != nil {
		return err
	}
	d.addr = ln.Addr().String()
	d.srv = &http.Server{Handler: d.handler()}
	go d.srv.Serve(ln)
	return nil
}

func (d *dockerd) down() {
	d.mu.Lock()
	defer d.mu.Unlock()
	if d.srv != nil {
		d.srv.Close()
		d.srv = nil
	}
}

func TestEngineCache(t *testing.T) {
	out := vt.OpenTrace(t)
	defer out.Close()
	cfg := coretypes.Config{MaxConcurrency: 10000, GlobalTimeout: 10 * time.Second, ConnectionTimeout: 250 * time.Millisecond,
		Docker: coretypes.DockerConfig{APIVersion: "1.41"}, Etcd: coretypes.EtcdConfig{Prefix: "/verifec", LockPrefix: "__lock__"}}
	st, err := etcdv3.New(cfg, t)
	if err != nil {
		t.Fatal(err)
	}
	ctx, cancel := context.WithCancel(context.Background())
	defer cancel()
	enginefactory.InitEngineCache(ctx, cfg, st)
	jit := vt.StartJitter()
	defer jit.Stop()
	_, _ = st.AddPod(ctx, "ecpod", "")
	run := 0
	vt.EachInput(t, func(raw []byte) {
		var in struct {
			Ops []struct {
				Op string `json:"op"`
			} `json:"ops"`
		}
		vt.MustUnmarshal(t, raw, &in)
		run++
		tStart := time.Now()
		d := &dockerd{}
		if err := d.up(); err != nil {
			t.Fatal(err)
		}
		defer d.down()
		endpoint := "tcp://" + d.addr
		name := fmt.Sprintf("ec%d", run)
		node, err := st.AddNode(ctx, &coretypes.AddNodeOptions{Nodename: name, Endpoint: endpoint, Podname: "ecpod", Labels: map[string]string{}})
		if err != nil {
			t.Fatal(err)
		}
		_ = st.SetNodeStatus(ctx, node, 36000)
		state := func() string {
			c := enginefactory.GetEngineFromCache(ctx, endpoint, "", "", "")
			if c == nil {
				return "absent"
			}
			if _, ok := c.(*fake.EngineWithErr); ok {
				return "err"
			}
			return "ok"
		}
		steps := []map[string]any{}
		for _, op := range in.Ops {
			switch op.Op {
			case "up":
				if err := d.up(); err != nil {
					t.Fatal(err)
				}
			case "down":
				d.down()
			case "hb":
				_ = st.SetNodeStatus(ctx, node, 36000)
			case "lapse":
				_ = st.SetNodeStatus(ctx, node, -1)
			case "get":
				_, _ = enginefactory.GetEngine(ctx, cfg, name, endpoint, "", "", "")
			case "churn":
				// other endpoints (fake daemons of their own) enter and leave the cache, each removed while the next is added
				for k := 0; k < 8; k++ {
					da, db := &dockerd{}, &dockerd{}
					if da.up() != nil || db.up() != nil {
						break
					}
					epa, epb := "tcp://"+da.addr, "tcp://"+db.addr
					_, _ = enginefactory.GetEngine(ctx, cfg, name+"x", epa, "", "", "")
					var wg sync.WaitGroup
					wg.Add(2)
					go func() { defer wg.Done(); enginefactory.RemoveEngineFromCache(ctx, epa, "", "", "") }()
					go func() { defer wg.Done(); _, _ = enginefactory.GetEngine(ctx, cfg, name+"y", epb, "", "", "") }()
					wg.Wait()
					enginefactory.RemoveEngineFromCache(ctx, epb, "", "", "")
					da.down()
					db.down()
				}
			case "wait":
				time.Sleep(1800 * time.Millisecond) // >= 2 rounds of the liveness loop (each: validate <= 250 ms + sleep 250 ms)
			}
			time.Sleep(60 * time.Millisecond)
			steps = append(steps, map[string]any{"op": op.Op, "state": state()})
		}
		out.Emit(map[string]any{"ev": "EC", "run": run, "steps": steps, "starved": jit.StarvedSince(tStart)})
		enginefactory.RemoveEngineFromCache(ctx, endpoint, "", "", "")
		_ = st.RemoveNode(ctx, node)
	})
	t.Logf("engine cache schedules: %d", run)
}
