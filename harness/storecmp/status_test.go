package storecmp

// C25 driver: TLC-generated sequences of entity add/remove, status reports (TTL > 0, 0, < 0, same
// or different value) and time passing, on etcd in real time (many sequences in parallel, times
// from one monotonic clock) and on redis in miniredis' virtual time. After every step both
// statuses are read back.

import (
	"context"
	"fmt"
	"sync"
	"testing"
	"time"

	"github.com/alicebob/miniredis/v2"
	"github.com/projecteru2/core/store"
	"github.com/projecteru2/core/store/etcdv3/embedded"
	redisstore "github.com/projecteru2/core/store/redis"
	coretypes "github.com/projecteru2/core/types"
	"github.com/projecteru2/core/utils"
	"verif/harness/vt"
)

type stop struct {
	Op  string `json:"op"`
	X   string `json:"x"`
	V   string `json:"v"`
	TTL int    `json:"ttl"`
}

type clock interface {
	now() int64 // ms
	sleep(sec int)
}

type realClock struct{ t0 time.Time }

func (c realClock) now() int64  { return time.Since(c.t0).Milliseconds() }
func (c realClock) sleep(s int) { time.Sleep(time.Duration(s) * time.Second) }

type virtClock struct {
	mr *miniredis.Miniredis
	t  int64
}

func (c *virtClock) now() int64 { return c.t }
func (c *virtClock) sleep(s int) {
	c.mr.FastForward(time.Duration(s) * time.Second)
	c.t += int64(s) * 1000
}

func runStatus(ctx context.Context, s store.Store, backend string, run int, ops []stop, ck clock) []map[string]any {
	sfx := fmt.Sprintf("r%d", run)
	node := "stn" + sfx  // the node whose status is reported
	wnode := "stw" + sfx // the (always recorded) node the workload lives on
	wid := "stwl" + sfx
	_, _ = s.AddPod(ctx, "stpod", "")
	_, _ = s.AddNode(ctx, &coretypes.AddNodeOptions{Nodename: wnode, Podname: "stpod", Endpoint: "mock://" + wnode})
	wl := &coretypes.Workload{ID: wid, Name: utils.MakeWorkloadName("stapp"+sfx, "e", "v"), Nodename: wnode, Podname: "stpod", Labels: map[string]string{}}
	present := map[string]bool{}
	get := func() map[string]any {
		g := map[string]any{}
		t0 := ck.now()
		_, err := s.GetNodeStatus(ctx, node)
		g["node"] = map[string]any{"vis": map[bool]string{true: "yes", false: "no"}[err == nil], "val": "alive", "t0": t0, "t1": ck.now()}
		t0 = ck.now()
		w := map[string]any{"vis": "na", "val": "", "t0": t0}
		if present["wl"] {
			st, err := s.GetWorkloadStatus(ctx, wid)
			switch {
			case err != nil:
				w["vis"] = "err"
			case st == nil:
				w["vis"] = "no"
			default:
				w["vis"] = "yes"
				w["val"] = map[bool]string{true: "A", false: "B"}[st.Running]
			}
		}
		w["t1"] = ck.now()
		g["wl"] = w
		return g
	}
	evs := []map[string]any{{"ev": "StRun", "b": backend, "run": run, "gets": get()}}
	for _, op := range ops {
		t0 := ck.now()
		class := "ok"
		switch op.Op {
		case "tick":
			ck.sleep(op.TTL)
		case "add":
			var err error
			if op.X == "node" {
				_, err = s.AddNode(ctx, &coretypes.AddNodeOptions{Nodename: node, Podname: "stpod", Endpoint: "mock://" + node})
			} else {
				err = s.AddWorkload(ctx, wl, nil)
			}
			class = cls(err)
			present[op.X] = present[op.X] || err == nil
		case "remove":
			var err error
			if op.X == "node" {
				err = s.RemoveNode(ctx, &coretypes.Node{NodeMeta: coretypes.NodeMeta{Name: node, Podname: "stpod"}})
			} else {
				err = s.RemoveWorkload(ctx, wl)
			}
			class = cls(err)
			if err == nil {
				present[op.X] = false
			}
		case "report":
			if op.X == "node" {
				class = cls(s.SetNodeStatus(ctx, &coretypes.Node{NodeMeta: coretypes.NodeMeta{Name: node, Podname: "stpod"}}, int64(op.TTL)))
			} else {
				st := &coretypes.StatusMeta{ID: wid, Running: op.V == "A", Healthy: true, Appname: "stapp" + sfx, Entrypoint: "e", Nodename: wnode}
				class = cls(s.SetWorkloadStatus(ctx, st, int64(op.TTL)))
			}
		}
		t1 := ck.now()
		evs = append(evs, map[string]any{"ev": "StOp", "b": backend, "run": run, "op": op, "class": class, "t0": t0, "t1": t1, "gets": get()})
	}
	return evs
}

func TestStoreStatus(t *testing.T) {
	out := vt.OpenTrace(t)
	defer out.Close()
	be := newBackends(t)
	ctx := context.Background()
	type job struct {
		run int
		ops []stop
	}
	var jobs []job
	vt.EachInput(t, func(raw []byte) {
		var in struct {
			Ops []stop `json:"ops"`
		}
		vt.MustUnmarshal(t, raw, &in)
		jobs = append(jobs, job{len(jobs) + 1, in.Ops})
	})
	var flush sync.Mutex
	emit := func(evs []map[string]any) {
		flush.Lock()
		defer flush.Unlock()
		for _, ev := range evs {
			out.Emit(ev)
		}
	}
	// redis: virtual time, one miniredis per sequence, sequential (instant)
	for _, j := range jobs {
		mr, err := miniredis.Run()
		if err != nil {
			t.Fatal(err)
		}
		rcfg := be.cfg
		rcfg.Redis = coretypes.RedisConfig{Addr: mr.Addr(), LockPrefix: "__lock__"}
		r, err := redisstore.New(rcfg, t)
		if err != nil {
			t.Fatal(err)
		}
		emit(runStatus(ctx, r, "redis", j.run, j.ops, &virtClock{mr: mr}))
		r.TerminateEmbededStorage()
		mr.Close()
	}
	jit := vt.StartJitter()
	pcli := embedded.NewCluster(t, be.cfg.Etcd.Prefix).RandClient()
	jit.Probe(func() { _, _ = pcli.Get(context.Background(), "/verif-probe") }, 200*time.Millisecond)
	defer jit.Stop()
	// etcd: real time, VERIF_PAR sequences at a time
	sem := make(chan struct{}, vt.EnvInt("VERIF_PAR", 64))
	var wg sync.WaitGroup
	etcdEvery := vt.EnvInt("VERIF_ETCD_EVERY", 1) // real time is expensive: every n-th sequence on etcd
	for i, j := range jobs {
		if (i+int(vt.Seed()))%etcdEvery != 0 {
			continue
		}
		wg.Add(1)
		sem <- struct{}{}
		go func(j job) {
			defer wg.Done()
			defer func() { <-sem }()
			tStart := time.Now()
			mark := vt.EnvMark()
			evs := runStatus(ctx, be.etcd, "etcd", j.run, j.ops, realClock{tStart})
			if vt.EnvFailedSince(mark) {
				return
			}
			if jit.StarvedSince(tStart) { // real-time lifetimes cannot be judged when the process was starved of CPU
				return
			}
			emit(evs)
		}(j)
	}
	wg.Wait()
	t.Logf("status sequences: %d", len(jobs))
}
