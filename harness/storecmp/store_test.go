package storecmp

// Store conformance driver (C23, C24, C25 share the plumbing): the same operation sequence is
// executed against the etcd store (etcdv3.Mercury on embedded etcd) and the Redis store
// (redis.Rediaron on miniredis); after every operation the success/failure class and a full
// read-back snapshot of both are logged side by side.

import (
	"context"
	"fmt"
	"sort"
	"strings"
	"sync"
	"testing"
	"time"

	"github.com/alicebob/miniredis/v2"
	enginefactory "github.com/projecteru2/core/engine/factory"
	"github.com/projecteru2/core/store"
	"github.com/projecteru2/core/store/etcdv3"
	"github.com/projecteru2/core/store/etcdv3/embedded"
	redisstore "github.com/projecteru2/core/store/redis"
	coretypes "github.com/projecteru2/core/types"
	"github.com/projecteru2/core/utils"
	clientv3 "go.etcd.io/etcd/client/v3"
	"verif/harness/vt"
)

type sop struct {
	Op string `json:"op"`
	A  string `json:"a"`
	B  string `json:"b"`
	C  string `json:"c"`
	N  int    `json:"n"`
}

type backends struct {
	etcd  store.Store
	redis store.Store
	mr    *miniredis.Miniredis
	cfg   coretypes.Config
}

var engineOnce sync.Once

func newBackends(t *testing.T) *backends {
	cfg := coretypes.Config{
		MaxConcurrency: 100000,
		GlobalTimeout:  30 * time.Second,
		// the engine cache's liveness loop sleeps ConnectionTimeout between rounds: zero would spin
		ConnectionTimeout: 10 * time.Second,
		Etcd:              coretypes.EtcdConfig{Prefix: "/verifstore", LockPrefix: "__lock__"},
	}
	engineOnce.Do(func() { enginefactory.InitEngineCache(context.Background(), cfg, nil) })
	e, err := etcdv3.New(cfg, t)
	if err != nil {
		t.Fatal(err)
	}
	mr, err := miniredis.Run()
	if err != nil {
		t.Fatal(err)
	}
	t.Cleanup(mr.Close)
	rcfg := cfg
	rcfg.Redis = coretypes.RedisConfig{Addr: mr.Addr(), LockPrefix: "__lock__"}
	r, err := redisstore.New(rcfg, t)
	if err != nil {
		t.Fatal(err)
	}
	// every request to the embedded etcd passes through envKV: a request the server itself failed (timed out under
	// load) makes the input during which it happened unjudgeable (vt.EnvFailedSince)
	cli := embedded.NewCluster(t, cfg.Etcd.Prefix).RandClient()
	if _, ok := cli.KV.(*envKV); !ok {
		cli.KV = &envKV{KV: cli.KV}
	}
	return &backends{etcd: e, redis: r, mr: mr, cfg: cfg}
}

type envKV struct{ clientv3.KV }

func (k *envKV) Get(ctx context.Context, key string, opts ...clientv3.OpOption) (*clientv3.GetResponse, error) {
	r, err := k.KV.Get(ctx, key, opts...)
	vt.NoteErr(err)
	return r, err
}
func (k *envKV) Put(ctx context.Context, key, val string, opts ...clientv3.OpOption) (*clientv3.PutResponse, error) {
	r, err := k.KV.Put(ctx, key, val, opts...)
	vt.NoteErr(err)
	return r, err
}
func (k *envKV) Delete(ctx context.Context, key string, opts ...clientv3.OpOption) (*clientv3.DeleteResponse, error) {
	r, err := k.KV.Delete(ctx, key, opts...)
	vt.NoteErr(err)
	return r, err
}
func (k *envKV) Do(ctx context.Context, op clientv3.Op) (clientv3.OpResponse, error) {
	r, err := k.KV.Do(ctx, op)
	vt.NoteErr(err)
	return r, err
}
func (k *envKV) Txn(ctx context.Context) clientv3.Txn { return &envTxn{Txn: k.KV.Txn(ctx)} }

type envTxn struct{ clientv3.Txn }

func (t *envTxn) If(cs ...clientv3.Cmp) clientv3.Txn   { t.Txn = t.Txn.If(cs...); return t }
func (t *envTxn) Then(ops ...clientv3.Op) clientv3.Txn { t.Txn = t.Txn.Then(ops...); return t }
func (t *envTxn) Else(ops ...clientv3.Op) clientv3.Txn { t.Txn = t.Txn.Else(ops...); return t }
func (t *envTxn) Commit() (*clientv3.TxnResponse, error) {
	r, err := t.Txn.Commit()
	vt.NoteErr(err)
	return r, err
}

// newRedisOnly: another miniredis + Rediaron next to the shared etcd store.
func newRedisOnly(t *testing.T, first *backends) *backends {
	mr, err := miniredis.Run()
	if err != nil {
		t.Fatal(err)
	}
	t.Cleanup(mr.Close)
	rcfg := first.cfg
	rcfg.Redis = coretypes.RedisConfig{Addr: mr.Addr(), LockPrefix: "__lock__"}
	r, err := redisstore.New(rcfg, t)
	if err != nil {
		t.Fatal(err)
	}
	return &backends{etcd: first.etcd, redis: r, mr: mr, cfg: first.cfg}
}

var appOf = map[string]string{"w1": "a", "w2": "a", "w3": "a", "w4": "a2"}   // "a" is a string prefix of "a2"
var entryOf = map[string]string{"w1": "x", "w2": "x", "w3": "x2", "w4": "x"} // and "x" of "x2"

// universe names are suffixed per sequence so that parallel sequences never collide
type names struct{ sfx string }

func (n names) x(s string) string {
	if s == "" {
		return ""
	}
	return n.sfx + s // the worker tag goes in front: prefix relations between names survive
}
func (n names) strip(s string) string { return strings.TrimPrefix(s, n.sfx) }
func (n names) mine(s string) bool    { return strings.HasPrefix(s, n.sfx) }

func (n names) workload(w, node string) *coretypes.Workload {
	id := n.x(w)
	for len(id) < 7 { // ids shorter than 7 are not a concern of the store
		id += "0"
	}
	return &coretypes.Workload{ID: n.x(w), Name: utils.MakeWorkloadName(n.x(appOf[w]), entryOf[w], "v"), Nodename: n.x(node), Podname: "pod", Labels: map[string]string{}}
}

func cls(err error) string {
	if err == nil {
		return "ok"
	}
	return "err"
}

func apply(ctx context.Context, s store.Store, nm names, op sop) string {
	switch op.Op {
	case "AddPod":
		_, err := s.AddPod(ctx, nm.x(op.A), "desc")
		return cls(err)
	case "RemovePod":
		return cls(s.RemovePod(ctx, nm.x(op.A)))
	case "AddNode":
		labels := map[string]string{}
		if op.C != "" {
			labels[op.C] = "v"
		}
		o := &coretypes.AddNodeOptions{Nodename: nm.x(op.A), Endpoint: "mock://" + nm.x(op.A), Podname: nm.x(op.B), Labels: labels}
		if op.C != "" {
			o.Ca, o.Cert, o.Key = "ca", "cert", "key"
		}
		_, err := s.AddNode(ctx, o)
		return cls(err)
	case "RemoveNode":
		node, err := s.GetNode(ctx, nm.x(op.A))
		if err != nil {
			node = &coretypes.Node{NodeMeta: coretypes.NodeMeta{Name: nm.x(op.A), Podname: nm.x("p1")}}
		}
		return cls(s.RemoveNode(ctx, node))
	case "SetBypass":
		node, err := s.GetNode(ctx, nm.x(op.A))
		if err != nil {
			return "err"
		}
		node.Bypass = op.N == 1
		return cls(s.UpdateNodes(ctx, node))
	case "SetNodeStatus":
		node := &coretypes.Node{NodeMeta: coretypes.NodeMeta{Name: nm.x(op.A), Podname: nm.x("p1")}}
		return cls(s.SetNodeStatus(ctx, node, int64(op.N)))
	case "AddWorkload":
		var p *coretypes.Processing
		if op.C != "" {
			p = &coretypes.Processing{Appname: nm.x(appOf[op.A]), Entryname: entryOf[op.A], Nodename: nm.x(op.B), Ident: op.C}
		}
		return cls(s.AddWorkload(ctx, nm.workload(op.A, op.B), p))
	case "UpdateWorkload":
		w := nm.workload(op.A, op.B)
		w.Labels = map[string]string{"updated": "1"}
		return cls(s.UpdateWorkload(ctx, w))
	case "RemoveWorkload":
		return cls(s.RemoveWorkload(ctx, nm.workload(op.A, op.B)))
	case "SetWorkloadStatus":
		st := &coretypes.StatusMeta{ID: nm.x(op.A), Running: true, Healthy: true, Appname: nm.x(appOf[op.A]), Entrypoint: entryOf[op.A], Nodename: nm.x(op.B)}
		return cls(s.SetWorkloadStatus(ctx, st, int64(op.N)))
	case "CreateProc", "DeleteProc":
		ae := strings.SplitN(op.A, "/", 2)
		p := &coretypes.Processing{Appname: nm.x(ae[0]), Entryname: ae[1], Nodename: nm.x(op.B), Ident: op.C}
		if op.Op == "CreateProc" {
			return cls(s.CreateProcessing(ctx, p, op.N))
		}
		return cls(s.DeleteProcessing(ctx, p))
	}
	panic("op " + op.Op)
}

func ids(ws []*coretypes.Workload, err error, nm names) any {
	if err != nil {
		return []string{"!err"} // same type as a result list: TLC compares values of one type only
	}
	out := []string{}
	for _, w := range ws {
		out = append(out, nm.strip(w.ID)+"@"+nm.strip(w.Nodename))
	}
	sort.Strings(out)
	return out
}

func nodeNames(ns []*coretypes.Node, err error, nm names) any {
	if err != nil {
		return []string{"!err"}
	}
	out := []string{}
	for _, n := range ns {
		out = append(out, nm.strip(n.Name))
	}
	sort.Strings(out)
	return out
}

func size(ws []*coretypes.Workload, err error) int {
	if err != nil {
		return -1
	}
	return len(ws)
}

// snapshot reads back everything observable through the store API for this sequence's universe.
var dsKey = map[[2]string]string{{"a", "x"}: "ax", {"a", "x2"}: "ay", {"a2", "x"}: "bx"}

func snapshot(ctx context.Context, s store.Store, nm names) map[string]any {
	snap := map[string]any{}
	pods := []string{}
	if all, err := s.GetAllPods(ctx); err == nil {
		for _, p := range all {
			if nm.mine(p.Name) {
				pods = append(pods, nm.strip(p.Name))
			}
		}
	} else {
		pods = append(pods, "err")
	}
	sort.Strings(pods)
	snap["pods"] = pods
	podv := map[string]any{}
	for _, p := range []string{"p1", "p2"} {
		_, err := s.GetPod(ctx, nm.x(p))
		all, e1 := s.GetNodesByPod(ctx, &coretypes.NodeFilter{Podname: nm.x(p), All: true}, store.WithoutEngineOption())
		up, e2 := s.GetNodesByPod(ctx, &coretypes.NodeFilter{Podname: nm.x(p)}, store.WithoutEngineOption())
		lab, e3 := s.GetNodesByPod(ctx, &coretypes.NodeFilter{Podname: nm.x(p), All: true, Labels: map[string]string{"k": "v"}}, store.WithoutEngineOption())
		podv[p] = map[string]any{"get": cls(err), "all": nodeNames(all, e1, nm), "up": nodeNames(up, e2, nm), "labelled": nodeNames(lab, e3, nm)}
	}
	snap["pod"] = podv
	nodev := map[string]any{}
	for _, n := range []string{"n1", "n2", "n3"} {
		rec := map[string]any{"get": "err", "pod": "", "bypass": false, "cert": false, "status": "err"}
		if node, err := s.GetNode(ctx, nm.x(n)); err == nil {
			rec["get"], rec["pod"], rec["bypass"] = "ok", nm.strip(node.Podname), node.Bypass
			c := &coretypes.Node{NodeMeta: coretypes.NodeMeta{Name: nm.x(n)}}
			if err := s.LoadNodeCert(ctx, c); err == nil {
				rec["cert"] = c.Ca != ""
			}
		}
		if _, err := s.GetNodeStatus(ctx, nm.x(n)); err == nil {
			rec["status"] = "ok"
		}
		ws, err := s.ListNodeWorkloads(ctx, nm.x(n), nil)
		rec["workloads"] = ids(ws, err, nm)
		nodev[n] = rec
	}
	snap["node"] = nodev
	wlv := map[string]any{}
	for _, w := range []string{"w1", "w2", "w3", "w4"} {
		rec := map[string]any{"get": "err", "node": "", "updated": false, "status": "none"}
		if wl, err := s.GetWorkload(ctx, nm.x(w)); err == nil {
			rec["get"], rec["node"] = "ok", nm.strip(wl.Nodename)
			rec["updated"] = wl.Labels["updated"] == "1"
			if wl.StatusMeta != nil {
				rec["status"] = "set"
			}
		}
		wlv[w] = rec
	}
	snap["wl"] = wlv
	a, b := nm.x("a"), nm.x("a2")
	l := func(app, entry, node string, limit int64) ([]*coretypes.Workload, error) {
		return s.ListWorkloads(ctx, app, entry, node, limit, nil)
	}
	x1, e1 := l(a, "", "", 0)
	x2, e2 := l(a, "x", "", 0)
	x3, e3 := l(a, "x", nm.x("n1"), 0)
	x4, e4 := l(b, "", "", 0)
	x5, e5 := l(a, "", "", 1)
	x6, e6 := l(a, "", "", 2)
	x7, e7 := l(a, "x2", "", 0)
	snap["list"] = map[string]any{"a": ids(x1, e1, nm), "ax": ids(x2, e2, nm), "axn1": ids(x3, e3, nm), "b": ids(x4, e4, nm), "ay": ids(x7, e7, nm),
		"aLimit1": size(x5, e5), "aLimit2": size(x6, e6)}
	ds := map[string]any{}
	for _, ae := range [][2]string{{"a", "x"}, {"a", "x2"}, {"a2", "x"}} {
		m, err := s.GetDeployStatus(ctx, nm.x(ae[0]), ae[1])
		if err != nil {
			ds[dsKey[ae]] = []int{-1}
			continue
		}
		row := []int{}
		for _, n := range []string{"n1", "n2", "n3"} {
			row = append(row, m[nm.x(n)])
		}
		extra := 0
		for k := range m {
			if !nm.mine(k) {
				extra++
			}
		}
		row = append(row, extra)
		ds[dsKey[ae]] = row
	}
	snap["deploy"] = ds
	return snap
}

// wipe removes everything a sequence left behind under this worker's names, so that names (and
// the engine cache keyed by them) are reused by the next sequence. All workers share one embedded
// etcd (the integration framework allows one cluster per process); each has its own miniredis.
func (b *backends) wipe(ctx context.Context, nm names) {
	if m, ok := b.etcd.(*etcdv3.Mercury); ok {
		for _, p := range []string{"p1", "p2"} {
			_, _ = m.Delete(ctx, "/pod/info/"+nm.x(p))
			_, _ = m.Delete(ctx, "/node/"+nm.x(p)+":pod/", clientv3.WithPrefix())
		}
		for _, n := range []string{"n1", "n2", "n3"} {
			_, _ = m.Delete(ctx, "/node/"+nm.x(n))
			_, _ = m.Delete(ctx, "/node/"+nm.x(n)+":", clientv3.WithPrefix())
			_, _ = m.Delete(ctx, "/status:node/"+nm.x(n))
		}
		for _, w := range []string{"w1", "w2", "w3", "w4"} {
			_, _ = m.Delete(ctx, "/workloads/"+nm.x(w))
		}
		for _, a := range []string{"a", "a2"} {
			for _, pre := range []string{"/deploy/", "/status/", "/processing/"} {
				_, _ = m.Delete(ctx, pre+nm.x(a)+"/", clientv3.WithPrefix())
			}
		}
	}
	b.mr.FlushAll()
}

var etcdOnce sync.Once
var sharedEtcd store.Store

// forEachWorker runs fn on VERIF_PAR workers sharing the embedded etcd, each with its own miniredis
// and its own name suffix.
func forEachWorker(t *testing.T, fn func(w int, be *backends, nm names)) {
	first := newBackends(t)
	var wg sync.WaitGroup
	for w := 0; w < vt.EnvInt("VERIF_PAR", 16); w++ {
		be := first
		if w > 0 {
			be = newRedisOnly(t, first)
		}
		wg.Add(1)
		go func(w int, be *backends) {
			defer wg.Done()
			fn(w, be, names{sfx: fmt.Sprintf("k%02d", w)})
		}(w, be)
	}
	wg.Wait()
}

func TestStoreDiff(t *testing.T) {
	out := vt.OpenTrace(t)
	defer out.Close()
	type job struct {
		run int
		ops []sop
	}
	ch := make(chan job, 64)
	var flush sync.Mutex
	run := 0
	go func() {
		defer close(ch)
		every := vt.EnvInt("VERIF_EVERY", 1)
		k := 0
		vt.EachInput(t, func(raw []byte) {
			k++
			if k%every != 0 {
				return
			}
			var in struct {
				Ops []sop `json:"ops"`
			}
			vt.MustUnmarshal(t, raw, &in)
			run++
			ch <- job{run, in.Ops}
		})
	}()
	forEachWorker(t, func(w int, be *backends, nm names) {
		ctx := context.Background()
		for j := range ch {
			mark := vt.EnvMark()
			be.wipe(ctx, nm)
			evs := []map[string]any{{"ev": "StoreRun", "run": j.run, "snapE": snapshot(ctx, be.etcd, nm), "snapR": snapshot(ctx, be.redis, nm)}}
			for _, op := range j.ops {
				ce := apply(ctx, be.etcd, nm, op)
				cr := apply(ctx, be.redis, nm, op)
				evs = append(evs, map[string]any{"ev": "StoreOp", "op": op, "classE": ce, "classR": cr,
					"snapE": snapshot(ctx, be.etcd, nm), "snapR": snapshot(ctx, be.redis, nm)})
			}
			if vt.EnvFailedSince(mark) {
				continue
			}
			flush.Lock()
			for _, ev := range evs {
				out.Emit(ev)
			}
			flush.Unlock()
		}
	})
	t.Logf("store sequences: %d", run)
}
